#!/bin/bash
# usage: run.sh <property-id> <quick|thorough>
# Rebuilds the harness against /repo's current working tree and runs one check.
set -u
cd "$(dirname "$0")"
ROOT="$(pwd)"
ID="$1"; TIER="${2:-${VERIF_TIER:-quick}}"
export GOFLAGS=-mod=mod GOPROXY=off GOSUMDB=off GOTOOLCHAIN=local
export VERIF_ROOT="$ROOT"
mkdir -p "$ROOT/.build" "$ROOT/evidence" "$ROOT/replays"
cp /repo/go.sum "$ROOT/harness/go.sum" 2>/dev/null
BIN="$ROOT/.build/vcheck"
case "$ID" in
  C07|C08|C17|C18) MODE=overlay ;;
  *) MODE=plain ;;
esac
cd "$ROOT/harness"
if [ "$MODE" = overlay ]; then
  # instrumented build: sync->vsync shim, tracked spawns, bbolt storage-write fault points; generated from
  # the current tree on every invocation, nothing in /repo is touched
  BIN="$ROOT/.build/vcheck-i"
  OVDIR="$ROOT/.build/overlay-$$"
  rm -rf "$OVDIR"; mkdir -p "$OVDIR"
  trap 'rm -rf "$OVDIR"' EXIT
  BBOLT="$(go list -m -f '{{.Dir}}' go.etcd.io/bbolt 2>/dev/null)"
  if ! go run ./tools/mkoverlay -repo /repo -out "$OVDIR" -bbolt "$BBOLT" > "$ROOT/.build/mkoverlay.log" 2>&1; then
    cat "$ROOT/.build/mkoverlay.log"
    echo "ERROR: overlay generation failed (harness problem, not a verdict)"; exit 2
  fi
  if ! GODEBUG=goindex=0 go build -overlay "$OVDIR/overlay.json" -o "$BIN.$$" ./cmd/vcheck 2> "$ROOT/.build/build.log"; then
    cat "$ROOT/.build/build.log"; echo "ERROR: build failed"; exit 2
  fi
  mv -f "$BIN.$$" "$BIN"
else
  if ! go build -o "$BIN.$$" ./cmd/vcheck 2> "$ROOT/.build/build.log"; then
    cat "$ROOT/.build/build.log"; echo "ERROR: build failed"; exit 2
  fi
  mv -f "$BIN.$$" "$BIN"
fi
if [ "$ID" = C18 ]; then
  # the data-race clause is decided by a free-running -race build of the same bodies
  if ! go build -race -o "$ROOT/.build/vcheck-race.$$" ./cmd/vcheck 2> "$ROOT/.build/build-race.log"; then
    cat "$ROOT/.build/build-race.log"; echo "ERROR: -race build failed"; exit 2
  fi
  mv -f "$ROOT/.build/vcheck-race.$$" "$ROOT/.build/vcheck-race"
  export VERIF_RACE_BIN="$ROOT/.build/vcheck-race"
fi
cd "$ROOT"
# hard deadline: a check that does not finish is inconclusive (exit 2), never a verdict
LIMIT=3600; [ "$TIER" = quick ] || LIMIT=28800
timeout -k 30 "$LIMIT" "$BIN" -prop "$ID" -tier "$TIER"
RC=$?
if [ $RC = 124 ] || [ $RC = 137 ]; then
  echo "INCONCLUSIVE: check $ID $TIER did not finish within ${LIMIT}s (blocked outside the scheduler?) - no verdict"
  exit 2
fi
exit $RC
