#!/bin/bash
# Run once after a fresh restore: warms the Go build cache for the harness (plain and overlay builds).
set -u
cd "$(dirname "$0")"
export GOFLAGS=-mod=mod GOPROXY=off GOSUMDB=off GOTOOLCHAIN=local
mkdir -p .build evidence replays
cp /repo/go.sum harness/go.sum
cd harness && go build -o ../.build/vcheck ./cmd/vcheck || exit 1
# instrumented (overlay) build used by C07, C08, C17, C18
OVDIR=../.build/overlay; rm -rf "$OVDIR"; mkdir -p "$OVDIR"
go run ./tools/mkoverlay -repo /repo -out "$OVDIR" -bbolt "$(go list -m -f '{{.Dir}}' go.etcd.io/bbolt)" > ../.build/mkoverlay.log 2>&1 || { cat ../.build/mkoverlay.log; exit 1; }
GODEBUG=goindex=0 go build -overlay "$OVDIR/overlay.json" -o ../.build/vcheck-i ./cmd/vcheck || exit 1
go build -race -o ../.build/vcheck-race ./cmd/vcheck || exit 1
echo "setup ok"
