#!/bin/bash
# Run once after a fresh restore: warms the Go build cache for the harness (plain and overlay builds).
set -u
cd "$(dirname "$0")"
export GOFLAGS=-mod=mod GOPROXY=off GOSUMDB=off GOTOOLCHAIN=local
mkdir -p .build evidence replays
cp /repo/go.sum harness/go.sum
cd harness && go build -o ../.build/vcheck ./cmd/vcheck && echo "setup ok"
