// mkoverlay generates a `go build -overlay` file from the CURRENT sources of openziti/storage:
//
//   - boltz/db.go, zitiql/util.go: the import "sync" is redirected to verif/vsync, so DbImpl.reloadLock
//     and the lexer/parser pools become scheduling points under the cooperative scheduler
//   - every `go f(x)` statement in the non-test sources becomes a tracked spawn (vsync.Go0), with the
//     function value and the arguments still evaluated by the spawning goroutine
//
// Nothing in /repo is modified. With -base an existing overlay (e.g. a self-test mutation) is
// taken as the source of the files it replaces.
package main

import (
	"encoding/json"
	"flag"
	"fmt"
	"go/ast"
	"go/format"
	"go/parser"
	"go/token"
	"os"
	"path/filepath"
	"strconv"
	"strings"
)

var syncFiles = map[string]bool{"boltz/db.go": true, "zitiql/util.go": true}

func main() {
	repo := flag.String("repo", "/repo", "repository root")
	out := flag.String("out", "", "output directory")
	base := flag.String("base", "", "existing overlay json to build upon")
	bbolt := flag.String("bbolt", "", "bbolt module directory: insert storage-write fault points into bucket.go")
	flag.Parse()
	if *out == "" {
		fmt.Fprintln(os.Stderr, "-out required")
		os.Exit(2)
	}
	replace := map[string]string{}
	if *base != "" {
		data, err := os.ReadFile(*base)
		if err != nil {
			panic(err)
		}
		var ov struct{ Replace map[string]string }
		if err := json.Unmarshal(data, &ov); err != nil {
			panic(err)
		}
		for k, v := range ov.Replace {
			replace[k] = v
		}
	}
	rewritten := 0
	for _, pkg := range []string{"boltz", "objectz", "zitiql", "ast"} {
		files, _ := filepath.Glob(filepath.Join(*repo, pkg, "*.go"))
		for _, f := range files {
			if strings.HasSuffix(f, "_test.go") {
				continue
			}
			rel, _ := filepath.Rel(*repo, f)
			src := f
			if r, ok := replace[f]; ok {
				src = r
			}
			changed, code, err := rewrite(src, syncFiles[rel])
			if err != nil {
				fmt.Fprintf(os.Stderr, "rewrite %s: %v\n", rel, err)
				os.Exit(1)
			}
			if !changed {
				continue
			}
			dst := filepath.Join(*out, strings.ReplaceAll(rel, "/", "_")+".overlay")
			if err := os.WriteFile(dst, code, 0o644); err != nil {
				panic(err)
			}
			replace[f] = dst
			rewritten++
			fmt.Printf("rewrote %s\n", rel)
		}
	}
	if *bbolt != "" {
		src := filepath.Join(*bbolt, "bucket.go")
		code, err := rewriteBbolt(src)
		if err != nil {
			fmt.Fprintf(os.Stderr, "rewrite bbolt bucket.go: %v\n", err)
			os.Exit(1)
		}
		dst := filepath.Join(*out, "bbolt_bucket.go.overlay")
		if err := os.WriteFile(dst, code, 0o644); err != nil {
			panic(err)
		}
		replace[src] = dst
		rewritten++
		fmt.Println("rewrote bbolt bucket.go (fault points)")
	}
	if *bbolt != "" {
		// bbolt's two long-held locks become scheduler-visible: the writer lock (held for a whole write
		// transaction) and the mmap lock (held shared for a whole read transaction, exclusively by Close and
		// by a remap). Waiting for a transaction to end is then a disabled thread, not a hang.
		src := filepath.Join(*bbolt, "db.go")
		code, err := rewriteBboltDb(src)
		if err != nil {
			fmt.Fprintf(os.Stderr, "rewrite bbolt db.go: %v\n", err)
			os.Exit(1)
		}
		dst := filepath.Join(*out, "bbolt_db.go.overlay")
		if err := os.WriteFile(dst, code, 0o644); err != nil {
			panic(err)
		}
		replace[src] = dst
		rewritten++
		fmt.Println("rewrote bbolt db.go (rwlock, metalock, mmaplock -> vsync)")
	}
	data, _ := json.MarshalIndent(map[string]interface{}{"Replace": replace}, "", " ")
	if err := os.WriteFile(filepath.Join(*out, "overlay.json"), data, 0o644); err != nil {
		panic(err)
	}
	fmt.Printf("overlay: %d files rewritten\n", rewritten)
}

func rewrite(path string, redirectSync bool) (bool, []byte, error) {
	fset := token.NewFileSet()
	file, err := parser.ParseFile(fset, path, nil, parser.ParseComments)
	if err != nil {
		return false, nil, err
	}
	changed := false
	needVsync := false
	if redirectSync {
		for _, imp := range file.Imports {
			if p, _ := strconv.Unquote(imp.Path.Value); p == "sync" {
				imp.Path.Value = strconv.Quote("verif/vsync")
				imp.Name = ast.NewIdent("sync")
				changed = true
			}
		}
	}
	counter := 0
	var fix func(list []ast.Stmt)
	fixStmt := func(s ast.Stmt) ast.Stmt {
		gs, ok := s.(*ast.GoStmt)
		if !ok {
			return s
		}
		changed = true
		needVsync = true
		call := gs.Call
		spawn := func(fn ast.Expr) ast.Stmt {
			return &ast.ExprStmt{X: &ast.CallExpr{Fun: &ast.SelectorExpr{X: ast.NewIdent("vsyncspawn"), Sel: ast.NewIdent("Go0")}, Args: []ast.Expr{fn}}}
		}
		if lit, ok := call.Fun.(*ast.FuncLit); ok && len(call.Args) == 0 {
			return spawn(lit)
		}
		counter++
		fname := fmt.Sprintf("_vsyncF%d", counter)
		block := &ast.BlockStmt{}
		block.List = append(block.List, &ast.AssignStmt{Lhs: []ast.Expr{ast.NewIdent(fname)}, Tok: token.DEFINE, Rhs: []ast.Expr{call.Fun}})
		var args []ast.Expr
		for i, a := range call.Args {
			an := fmt.Sprintf("_vsyncA%d_%d", counter, i)
			block.List = append(block.List, &ast.AssignStmt{Lhs: []ast.Expr{ast.NewIdent(an)}, Tok: token.DEFINE, Rhs: []ast.Expr{a}})
			args = append(args, ast.NewIdent(an))
		}
		inner := &ast.FuncLit{Type: &ast.FuncType{Params: &ast.FieldList{}}, Body: &ast.BlockStmt{List: []ast.Stmt{
			&ast.ExprStmt{X: &ast.CallExpr{Fun: ast.NewIdent(fname), Args: args}}}}}
		block.List = append(block.List, spawn(inner))
		return block
	}
	fix = func(list []ast.Stmt) {
		for i := range list {
			list[i] = fixStmt(list[i])
		}
	}
	ast.Inspect(file, func(n ast.Node) bool {
		switch b := n.(type) {
		case *ast.BlockStmt:
			fix(b.List)
		case *ast.CaseClause:
			fix(b.Body)
		case *ast.CommClause:
			fix(b.Body)
		case *ast.IfStmt:
			if g, ok := b.Else.(*ast.GoStmt); ok {
				b.Else = &ast.BlockStmt{List: []ast.Stmt{fixStmt(g)}}
			}
		}
		return true
	})
	if !changed {
		return false, nil, nil
	}
	if needVsync {
		spec := &ast.ImportSpec{Name: ast.NewIdent("vsyncspawn"), Path: &ast.BasicLit{Kind: token.STRING, Value: strconv.Quote("verif/vsync")}}
		decl := &ast.GenDecl{Tok: token.IMPORT, Specs: []ast.Spec{spec}}
		file.Decls = append([]ast.Decl{decl}, file.Decls...)
		file.Imports = append(file.Imports, spec)
	}
	var sb strings.Builder
	if err := format.Node(&sb, fset, file); err != nil {
		return false, nil, err
	}
	return true, []byte(sb.String()), nil
}

// rewriteBbolt inserts `if e := vfault.Hit(b.tx, "<name>"); e != nil { return ... }` at the top of the
// bucket write methods.
func rewriteBbolt(path string) ([]byte, error) {
	fset := token.NewFileSet()
	file, err := parser.ParseFile(fset, path, nil, parser.ParseComments)
	if err != nil {
		return nil, err
	}
	targets := map[string]bool{"Put": true, "Delete": true, "CreateBucket": true, "CreateBucketIfNotExists": true, "DeleteBucket": true}
	n := 0
	for _, d := range file.Decls {
		fd, ok := d.(*ast.FuncDecl)
		if !ok || fd.Recv == nil || !targets[fd.Name.Name] || fd.Body == nil {
			continue
		}
		if st, ok := fd.Recv.List[0].Type.(*ast.StarExpr); !ok || fmt.Sprint(st.X) != "Bucket" {
			continue
		}
		recv := fd.Recv.List[0].Names[0].Name
		results := []ast.Expr{ast.NewIdent("_vfaultErr")}
		if fd.Type.Results != nil && fd.Type.Results.NumFields() == 2 {
			results = []ast.Expr{ast.NewIdent("nil"), ast.NewIdent("_vfaultErr")}
		}
		guard := &ast.IfStmt{
			Init: &ast.AssignStmt{Lhs: []ast.Expr{ast.NewIdent("_vfaultErr")}, Tok: token.DEFINE, Rhs: []ast.Expr{&ast.CallExpr{
				Fun:  &ast.SelectorExpr{X: ast.NewIdent("vfault"), Sel: ast.NewIdent("Hit")},
				Args: []ast.Expr{&ast.SelectorExpr{X: ast.NewIdent(recv), Sel: ast.NewIdent("tx")}, &ast.BasicLit{Kind: token.STRING, Value: strconv.Quote(fd.Name.Name)}}}}},
			Cond: &ast.BinaryExpr{X: ast.NewIdent("_vfaultErr"), Op: token.NEQ, Y: ast.NewIdent("nil")},
			Body: &ast.BlockStmt{List: []ast.Stmt{&ast.ReturnStmt{Results: results}}},
		}
		fd.Body.List = append([]ast.Stmt{guard}, fd.Body.List...)
		n++
	}
	if n != len(targets) {
		return nil, fmt.Errorf("expected %d write methods, instrumented %d", len(targets), n)
	}
	spec := &ast.ImportSpec{Name: ast.NewIdent("vfault"), Path: &ast.BasicLit{Kind: token.STRING, Value: strconv.Quote("verif/vfault")}}
	file.Decls = append([]ast.Decl{&ast.GenDecl{Tok: token.IMPORT, Specs: []ast.Spec{spec}}}, file.Decls...)
	file.Imports = append(file.Imports, spec)
	var sb strings.Builder
	if err := format.Node(&sb, fset, file); err != nil {
		return nil, err
	}
	return []byte(sb.String()), nil
}

// rewriteBboltDb changes the types of DB.rwlock, DB.metalock and DB.mmaplock to the vsync shims (metalock too:
// bbolt takes the mmap lock while holding it, so a thread parked at the mmap lock would otherwise hold a real mutex).
func rewriteBboltDb(path string) ([]byte, error) {
	fset := token.NewFileSet()
	file, err := parser.ParseFile(fset, path, nil, parser.ParseComments)
	if err != nil {
		return nil, err
	}
	n := 0
	ast.Inspect(file, func(node ast.Node) bool {
		ts, ok := node.(*ast.TypeSpec)
		if !ok || ts.Name.Name != "DB" {
			return true
		}
		st, ok := ts.Type.(*ast.StructType)
		if !ok {
			return true
		}
		for _, f := range st.Fields.List {
			for _, name := range f.Names {
				switch name.Name {
				case "rwlock", "metalock":
					f.Type = &ast.SelectorExpr{X: ast.NewIdent("vsyncshim"), Sel: ast.NewIdent("Mutex")}
					n++
				case "mmaplock":
					f.Type = &ast.SelectorExpr{X: ast.NewIdent("vsyncshim"), Sel: ast.NewIdent("RWMutex")}
					n++
				}
			}
		}
		return false
	})
	if n != 3 {
		return nil, fmt.Errorf("expected fields rwlock, metalock and mmaplock in bbolt.DB, found %d", n)
	}
	spec := &ast.ImportSpec{Name: ast.NewIdent("vsyncshim"), Path: &ast.BasicLit{Kind: token.STRING, Value: strconv.Quote("verif/vsync")}}
	file.Decls = append([]ast.Decl{&ast.GenDecl{Tok: token.IMPORT, Specs: []ast.Spec{spec}}}, file.Decls...)
	file.Imports = append(file.Imports, spec)
	var sb strings.Builder
	if err := format.Node(&sb, fset, file); err != nil {
		return nil, err
	}
	return []byte(sb.String()), nil
}
