package main

import (
	"flag"
	"fmt"
	"io"
	"os"

	"github.com/sirupsen/logrus"
	"verif/checks"
)

func main() {
	prop := flag.String("prop", "", "property id (C01..C20)")
	tier := flag.String("tier", "quick", "quick|thorough")
	probe := flag.String("probe", "", "internal: run a child-process probe")
	flag.Parse()
	if *probe != "" {
		logrus.SetOutput(io.Discard)
		os.Exit(checks.Probe(*probe))
	}
	if t := os.Getenv("VERIF_TIER"); t != "" && *tier == "" {
		*tier = t
	}
	logrus.SetOutput(io.Discard)
	logrus.SetLevel(logrus.PanicLevel)
	// ANTLR's console listener prints one line per unrecognised character to os.Stderr; runtime
	// crashes still reach fd 2 directly.
	if dn, err := os.OpenFile(os.DevNull, os.O_WRONLY, 0); err == nil {
		os.Stderr = dn
	}
	f, ok := checks.Registry[*prop]
	if !ok {
		fmt.Fprintf(os.Stderr, "unknown property %q\n", *prop)
		os.Exit(2)
	}
	os.Exit(f(*tier))
}
