package main

import (
	"flag"
	"fmt"
	"io"
	"os"

	"github.com/sirupsen/logrus"
	"verif/checks"
)

func main() {
	prop := flag.String("prop", "", "property id (C01..C20)")
	tier := flag.String("tier", "quick", "quick|thorough")
	flag.Parse()
	if t := os.Getenv("VERIF_TIER"); t != "" && *tier == "" {
		*tier = t
	}
	logrus.SetOutput(io.Discard)
	logrus.SetLevel(logrus.PanicLevel)
	f, ok := checks.Registry[*prop]
	if !ok {
		fmt.Fprintf(os.Stderr, "unknown property %q\n", *prop)
		os.Exit(2)
	}
	os.Exit(f(*tier))
}
