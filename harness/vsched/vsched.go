// Package vsched is engine E3: a cooperative scheduler for goroutines that synchronise through
// package vsync, and a stateless depth-first explorer over schedules with iterative preemption
// bounding. Only the thread holding the baton runs; every vsync operation, every tracked spawn and
// every explicit vsync.Yield is a scheduling point. A thread whose next operation cannot proceed
// (lock held, writer waiting, ...) is disabled; "no enabled thread while some are unfinished" is a
// deadlock.
package vsched

import (
	"fmt"
	"runtime"
	"runtime/debug"
	"strings"
	"sync"
	"sync/atomic"
	"time"

	"verif/vsync"
)

type thread struct {
	id       int
	pc       int
	name     string
	wake     chan struct{}
	guard    func() bool
	what     string
	finished bool
	// detached: the thread was given the baton but did not come back to a scheduling point within
	// StepTimeout - it is blocked (or busy) in code the scheduler does not control, e.g. inside bbolt waiting
	// for another thread's transaction to end. It is treated as not enabled until it parks again.
	detached bool
}

// StepTimeout: how long a thread may take to reach its next scheduling point before it is detached.
var StepTimeout = 10 * time.Second

// ExternalBlockTimeout: how long to wait for a detached thread when nothing else can run.
var ExternalBlockTimeout = 20 * time.Second

// Point is one scheduling decision.
type Point struct {
	Kind           string // "thread" or "pool"
	Enabled        []int  // thread ids in canonical order (running thread first if still enabled, then ascending), or pool answers
	RunningEnabled bool
	Chosen         int
	What           string
	// Key identifies the global state at this point (thread program counters and pending operations,
	// running thread, plus the harness-supplied state key); empty when no KeyFn is given.
	Key string
}

// Execution is the record of one complete run.
type Execution struct {
	Points   []Point
	Deadlock bool
	Blocked  []string // descriptions of the blocked threads at a deadlock
	Panics   []string
	Hung     string
	// Detached lists threads that blocked outside the scheduler's control and were left to run on their own
	// (the rest of such an execution is a real, but no longer a replayable, interleaving); DetachAt is the
	// number of choice points recorded when the first one was detached.
	Detached    []string
	DetachAt    int
	Diverged    string
	Steps       int
	StepCapHit  bool
	ThreadNames []string
}

// Choices returns the choice sequence of the execution.
func (x *Execution) Choices() []int {
	out := make([]int, len(x.Points))
	for i, p := range x.Points {
		out[i] = p.Chosen
	}
	return out
}

// Schedule renders the thread choices in readable form.
func (x *Execution) Schedule() []string {
	var out []string
	for _, p := range x.Points {
		if p.Kind == "pool" {
			out = append(out, fmt.Sprintf("pool-answer#%d", p.Chosen))
			continue
		}
		id := p.Enabled[p.Chosen]
		name := fmt.Sprint(id)
		if id < len(x.ThreadNames) {
			name = x.ThreadNames[id]
		}
		out = append(out, name+"@"+p.What)
	}
	return out
}

type abortSentinel struct{}

type sched struct {
	keyFn    func() string
	threads  []*thread
	cur      *thread
	parked   chan *thread
	prefix   []int
	x        *Execution
	aborting bool
	maxSteps int
	byGoid   sync.Map // goroutine id -> *thread, used while a detached thread may run next to the current one
	detached int32
}

func goid() int64 {
	var buf [64]byte
	n := runtime.Stack(buf[:], false)
	// "goroutine 123 ["
	var id int64
	for _, c := range buf[len("goroutine "):n] {
		if c < '0' || c > '9' {
			break
		}
		id = id*10 + int64(c-'0')
	}
	return id
}

func (s *sched) self() *thread {
	if atomic.LoadInt32(&s.detached) == 0 {
		return s.cur
	}
	if t, ok := s.byGoid.Load(goid()); ok {
		return t.(*thread)
	}
	return s.cur
}

var _ vsync.Hooks = (*sched)(nil)
var _ vsync.PoolChooser = (*sched)(nil)

func (s *sched) Yield(what string, guard func() bool) {
	if s.aborting {
		return
	}
	t := s.self()
	t.what, t.guard = what, guard
	t.pc++
	s.parked <- t
	<-t.wake
	if s.aborting {
		panic(abortSentinel{})
	}
}

func (s *sched) Spawn(name string, f func()) {
	if s.aborting {
		return
	}
	s.spawn(name, f)
}

func (s *sched) spawn(name string, f func()) *thread {
	t := &thread{id: len(s.threads), name: fmt.Sprintf("%s#%d", name, len(s.threads)), wake: make(chan struct{}), what: "start"}
	s.threads = append(s.threads, t)
	s.x.ThreadNames = append(s.x.ThreadNames, t.name)
	go func() {
		s.byGoid.Store(goid(), t)
		<-t.wake
		defer func() {
			if r := recover(); r != nil {
				if _, ok := r.(abortSentinel); !ok {
					s.x.Panics = append(s.x.Panics, fmt.Sprintf("thread %s: %v\n%s", t.name, r, trimStack(debug.Stack())))
				}
			}
			t.finished = true
			s.parked <- t
		}()
		if s.aborting {
			return
		}
		f()
	}()
	return t
}

func trimStack(b []byte) string {
	lines := strings.Split(string(b), "\n")
	if len(lines) > 24 {
		lines = lines[:24]
	}
	return strings.Join(lines, "\n")
}

func (s *sched) Choose(n int) int {
	// pool answers: 0..n-1 = recycled instance, n = new instance; default (choice 0) = most recently returned
	p := Point{Kind: "pool", What: "Pool.Get"}
	for i := 0; i <= n; i++ {
		p.Enabled = append(p.Enabled, i)
	}
	idx := 0
	pos := len(s.x.Points)
	if pos < len(s.prefix) {
		idx = s.prefix[pos]
		if idx >= len(p.Enabled) {
			s.x.Diverged = fmt.Sprintf("pool choice %d out of range at point %d", idx, pos)
			idx = 0
		}
	}
	p.Chosen = idx
	s.x.Points = append(s.x.Points, p)
	// map: choice 0 -> last item (LIFO like sync.Pool's fast path), others in order
	if idx == 0 {
		return n - 1
	}
	if idx == n {
		return n
	}
	return idx - 1
}

// Run executes body as thread 0 under the scheduler, replaying prefix and taking choice 0 afterwards.
func Run(prefix []int, maxSteps int, body func()) *Execution {
	return RunKeyed(prefix, maxSteps, body, nil)
}

// RunKeyed is Run with a harness-supplied global state key (evaluated while all threads are parked).
func RunKeyed(prefix []int, maxSteps int, body func(), keyFn func() string) *Execution {
	s := &sched{parked: make(chan *thread), prefix: prefix, x: &Execution{}, maxSteps: maxSteps, keyFn: keyFn}
	vsync.ResetPools()
	vsync.Install(s)
	defer vsync.Uninstall()
	s.spawn("main", body)
	var running *thread
	for {
		// collect enabled threads (all threads are parked here, so guards can be evaluated safely)
		// detached threads that reached a scheduling point in the meantime are ordinary parked threads again
		for drained := false; !drained && atomic.LoadInt32(&s.detached) > 0; {
			select {
			case t := <-s.parked:
				t.detached = false
				atomic.AddInt32(&s.detached, -1)
			default:
				drained = true
			}
		}
		var enabled []*thread
		unfinished := 0
		detachedNow := 0
		for _, t := range s.threads {
			if t.finished {
				continue
			}
			unfinished++
			if t.detached {
				detachedNow++
				continue
			}
			if t.guard == nil || t.guard() {
				enabled = append(enabled, t)
			}
		}
		if unfinished == 0 {
			break
		}
		if len(enabled) == 0 && detachedNow > 0 {
			// nothing the scheduler controls can run: wait for a detached thread to come back
			select {
			case t := <-s.parked:
				t.detached = false
				atomic.AddInt32(&s.detached, -1)
				continue
			case <-time.After(ExternalBlockTimeout):
				s.x.Hung = fmt.Sprintf("%d thread(s) blocked outside the scheduler (%s) and no other thread can run", detachedNow, strings.Join(s.x.Detached, "; "))
				return s.x
			}
		}
		if len(enabled) == 0 {
			s.x.Deadlock = true
			for _, t := range s.threads {
				if !t.finished {
					s.x.Blocked = append(s.x.Blocked, t.name+" blocked at "+t.what)
				}
			}
			s.abort()
			break
		}
		if s.maxSteps > 0 && s.x.Steps >= s.maxSteps {
			s.x.StepCapHit = true
			s.abort()
			break
		}
		// canonical order: the running thread first if it is still enabled, then ascending ids
		var order []*thread
		runningEnabled := false
		for _, t := range enabled {
			if t == running {
				runningEnabled = true
			}
		}
		if runningEnabled {
			order = append(order, running)
		}
		for _, t := range enabled {
			if t != running {
				order = append(order, t)
			}
		}
		chosen := order[0]
		if len(order) > 1 {
			p := Point{Kind: "thread", RunningEnabled: runningEnabled}
			for _, t := range order {
				p.Enabled = append(p.Enabled, t.id)
			}
			idx := 0
			pos := len(s.x.Points)
			if pos < len(s.prefix) {
				idx = s.prefix[pos]
				if idx >= len(order) {
					s.x.Diverged = fmt.Sprintf("choice %d out of range (%d enabled) at point %d", idx, len(order), pos)
					s.abort()
					break
				}
			}
			p.Chosen = idx
			chosen = order[idx]
			p.What = chosen.what
			if s.keyFn != nil {
				var kb strings.Builder
				for _, t := range s.threads {
					fmt.Fprintf(&kb, "%d:%d:%s:%v;", t.id, t.pc, t.what, t.finished)
				}
				rid := -1
				if running != nil {
					rid = running.id
				}
				fmt.Fprintf(&kb, "run=%d|%s", rid, s.keyFn())
				p.Key = kb.String()
			}
			s.x.Points = append(s.x.Points, p)
		}
		running = chosen
		s.cur = chosen
		s.x.Steps++
		chosen.wake <- struct{}{}
		for back := false; !back; {
			select {
			case t := <-s.parked:
				if t == chosen {
					back = true
				} else { // a detached thread came back
					t.detached = false
					atomic.AddInt32(&s.detached, -1)
				}
			case <-time.After(StepTimeout):
				// blocked (or busy) in code the scheduler does not control: let the others go on
				chosen.detached = true
				atomic.AddInt32(&s.detached, 1)
				if len(s.x.Detached) == 0 {
					s.x.DetachAt = len(s.x.Points)
				}
				s.x.Detached = append(s.x.Detached, fmt.Sprintf("%s after %s", chosen.name, chosen.what))
				running = nil
				back = true
			}
		}
	}
	return s.x
}

// abort unwinds every unfinished thread (their pending Yield panics with a sentinel that the thread
// wrapper recovers), so that deferred unlocks/rollbacks in the code under test run.
func (s *sched) abort() {
	s.aborting = true
	for _, t := range s.threads {
		if t.finished || t.detached {
			continue
		}
		s.cur = t
		t.wake <- struct{}{}
		select {
		case <-s.parked:
		case <-time.After(30 * time.Second):
			s.x.Hung = "thread " + t.name + " did not unwind during abort"
			return
		}
	}
}

// Explorer enumerates schedules depth-first with a preemption bound.
type Explorer struct {
	Bound      int
	MaxSteps   int
	MaxExecs   int
	Body       func() func() // returns the thread-0 body for one execution (fresh world per execution)
	Check      func(x *Execution)
	Executions int
	Capped     bool
	MaxPoints  int
	// KeyFn, when set, enables global-state pruning: an alternative (state key, thread to run) that was
	// already explored with at least the same remaining preemption budget is not explored again. The
	// key must determine the future: thread program counters and pending operations are added by the
	// scheduler, everything else the threads' behaviour depends on must be in KeyFn's result.
	KeyFn   func() string
	Pruned  int
	visited map[string]int
	// ReplayEvery > 0: every ReplayEvery-th execution is run a second time from its recorded choice
	// sequence and must reproduce the same schedule (proof that the harness owns the nondeterminism)
	ReplayEvery int
	Cleanup     func() // called after a replay run (Check is not), to release what Body opened
	Replays     int
	ReplayDiffs []string
}

func preemptionCost(p Point, alt int) int {
	if p.Kind == "thread" && p.RunningEnabled && alt != 0 {
		return 1
	}
	return 0
}

// Explore runs all schedules with at most Bound preemptions.
func (e *Explorer) Explore() {
	e.explore(nil)
}

func (e *Explorer) explore(prefix []int) {
	if e.MaxExecs > 0 && e.Executions >= e.MaxExecs {
		e.Capped = true
		return
	}
	x := RunKeyed(prefix, e.MaxSteps, e.Body(), e.KeyFn)
	e.Executions++
	if len(x.Points) > e.MaxPoints {
		e.MaxPoints = len(x.Points)
	}
	e.Check(x)
	if x.Hung != "" || x.Diverged != "" {
		return
	}
	if e.ReplayEvery > 0 && e.Executions%e.ReplayEvery == 0 {
		y := RunKeyed(x.Choices(), e.MaxSteps, e.Body(), e.KeyFn)
		e.Replays++
		if e.Cleanup != nil {
			e.Cleanup()
		}
		a, b := strings.Join(x.Schedule(), " > "), strings.Join(y.Schedule(), " > ")
		if a != b || y.Diverged != "" || y.Deadlock != x.Deadlock || len(y.Panics) != len(x.Panics) {
			if len(e.ReplayDiffs) < 5 {
				e.ReplayDiffs = append(e.ReplayDiffs, fmt.Sprintf("choices %v: first run %q, replay %q (diverged=%q)", x.Choices(), a, b, y.Diverged))
			}
		}
	}
	// preemptions used by the prefix
	used := 0
	for i := 0; i < len(prefix) && i < len(x.Points); i++ {
		used += preemptionCost(x.Points[i], x.Points[i].Chosen)
	}
	cost := used
	for i := len(prefix); i < len(x.Points); i++ {
		if len(x.Detached) > 0 && i >= x.DetachAt {
			break // beyond this point the execution was not under the scheduler's control
		}
		p := x.Points[i]
		for alt := 1; alt < len(p.Enabled); alt++ {
			if cost+preemptionCost(p, alt) > e.Bound {
				continue
			}
			if e.KeyFn != nil && p.Key != "" {
				if e.visited == nil {
					e.visited = map[string]int{}
				}
				vk := fmt.Sprintf("%s|alt=%d", p.Key, p.Enabled[alt])
				remaining := e.Bound - cost - preemptionCost(p, alt)
				if best, ok := e.visited[vk]; ok && best >= remaining {
					e.Pruned++
					continue
				}
				e.visited[vk] = remaining
			}
			np := append(append([]int{}, x.Choices()[:i]...), alt)
			e.explore(np)
		}
		cost += preemptionCost(p, p.Chosen) // default choice 0 never preempts
	}
}
