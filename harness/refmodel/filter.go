// Package refmodel holds the reference models: an independent evaluator of the filter language
// written from the documented semantics, a sorter/pager, a grammar recogniser, a string unescaper
// and a cursor model. Nothing here calls into the implementation under test.
package refmodel

import (
	"fmt"
	"sort"
	"strconv"
	"strings"
	"time"
)

type Kind int

const (
	KNull Kind = iota
	KStr
	KInt
	KFlt
	KBool
	KTime
)

type Val struct {
	K Kind
	S string
	I int64
	F float64
	B bool
	T time.Time
}

var Null = Val{}

func Str(s string) Val     { return Val{K: KStr, S: s} }
func Int(i int64) Val      { return Val{K: KInt, I: i} }
func Flt(f float64) Val    { return Val{K: KFlt, F: f} }
func Bool(b bool) Val      { return Val{K: KBool, B: b} }
func Time(t time.Time) Val { return Val{K: KTime, T: t} }
func (v Val) IsNull() bool { return v.K == KNull }
func (v Val) String() string {
	switch v.K {
	case KNull:
		return "null"
	case KStr:
		return strconv.Quote(v.S)
	case KInt:
		return strconv.FormatInt(v.I, 10)
	case KFlt:
		return fmtFloat(v.F)
	case KBool:
		return strconv.FormatBool(v.B)
	case KTime:
		return v.T.UTC().Format(time.RFC3339Nano)
	}
	return "?"
}

func fmtFloat(f float64) string { return strconv.FormatFloat(f, 'f', -1, 64) }

// Lit renders a value as a filter literal.
func Lit(v Val) string {
	switch v.K {
	case KStr:
		return QuoteZql(v.S)
	case KInt:
		return strconv.FormatInt(v.I, 10)
	case KFlt:
		s := fmtFloat(v.F)
		if !strings.ContainsAny(s, ".eE") {
			s += ".0"
		}
		return s
	case KBool:
		return strconv.FormatBool(v.B)
	case KTime:
		return "datetime(" + v.T.UTC().Format(time.RFC3339Nano) + ")"
	case KNull:
		return "null"
	}
	return "?"
}

// QuoteZql produces the canonical literal for s: backslash and double quote escaped, the four
// escapable control characters written as \n \t \r \f.
func QuoteZql(s string) string {
	var b strings.Builder
	b.WriteByte('"')
	for _, r := range s {
		switch r {
		case '\\':
			b.WriteString(`\\`)
		case '"':
			b.WriteString(`\"`)
		case '\n':
			b.WriteString(`\n`)
		case '\t':
			b.WriteString(`\t`)
		case '\r':
			b.WriteString(`\r`)
		case '\f':
			b.WriteString(`\f`)
		default:
			b.WriteRune(r)
		}
	}
	b.WriteByte('"')
	return b.String()
}

// ---------------------------------------------------------------------------------------------
// dataset model

type Ent struct {
	Id     string
	F      map[string]Val // scalar fields (absent = null)
	Sets   map[string][]string
	Fk     map[string]*string // foreign keys (nil = null)
	Tags   map[string]Val
	HasExt bool
}

type Store struct {
	Name string
	Ents map[string]*Ent
	// schema
	Scalars map[string]Kind      // field -> declared type
	SetSyms map[string]string    // set symbol -> "" (plain string set) or linked store name
	FkSyms  map[string]string    // fk symbol -> target store
	BackRef map[string][2]string // set symbol -> (referrer store, fk field): computed set of referrers
	MapSyms map[string]bool
}

type DS struct {
	Stores map[string]*Store
}

func (s *Store) Ids() []string {
	ids := make([]string, 0, len(s.Ents))
	for id := range s.Ents {
		ids = append(ids, id)
	}
	sort.Strings(ids)
	return ids
}

// SymType describes a resolved symbol.
type SymType struct {
	Kind   Kind // element/scalar type; KNull = any-typed
	IsSet  bool
	Linked string // linked store for entity-valued symbols
	Any    bool
}

// TypeOf resolves the static type of a (possibly dotted) symbol.
func (d *DS) TypeOf(store, sym string) (SymType, bool) {
	st := d.Stores[store]
	if st == nil {
		return SymType{}, false
	}
	parts := strings.Split(sym, ".")
	first := parts[0]
	if st.MapSyms[first] {
		if len(parts) < 2 {
			return SymType{}, false
		}
		return SymType{Any: true}, true
	}
	if len(parts) == 1 {
		if first == "id" {
			return SymType{Kind: KStr}, true
		}
		if k, ok := st.Scalars[first]; ok {
			return SymType{Kind: k}, true
		}
		if tgt, ok := st.FkSyms[first]; ok {
			return SymType{Kind: KStr, Linked: tgt}, true
		}
		if tgt, ok := st.SetSyms[first]; ok {
			return SymType{Kind: KStr, IsSet: true, Linked: tgt}, true
		}
		if br, ok := st.BackRef[first]; ok {
			return SymType{Kind: KStr, IsSet: true, Linked: br[0]}, true
		}
		return SymType{}, false
	}
	ft, ok := d.TypeOf(store, first)
	if !ok || ft.Linked == "" {
		return SymType{}, false
	}
	rt, ok := d.TypeOf(ft.Linked, strings.Join(parts[1:], "."))
	if !ok {
		return SymType{}, false
	}
	rt.IsSet = rt.IsSet || ft.IsSet
	return rt, true
}

// Resolved is the value of a symbol for one entity.
type Resolved struct {
	Scalar Val
	Elems  []Val
	IsSet  bool
	// NullHop: a set chain passed through a null scalar hop or produced a null element; what such an
	// element contributes to count/isEmpty is not specified.
	NullElem bool
}

func (d *DS) Resolve(store, id, sym string) Resolved {
	st := d.Stores[store]
	e := st.Ents[id]
	parts := strings.Split(sym, ".")
	first := parts[0]
	if st.MapSyms[first] {
		if e == nil {
			return Resolved{}
		}
		// only one level of map keys is used by the generators
		return Resolved{Scalar: e.Tags[strings.Join(parts[1:], ".")]}
	}
	if len(parts) == 1 {
		if e == nil {
			return Resolved{}
		}
		if first == "id" {
			return Resolved{Scalar: Str(id)}
		}
		if _, ok := st.Scalars[first]; ok {
			return Resolved{Scalar: e.F[first]}
		}
		if _, ok := st.FkSyms[first]; ok {
			if p := e.Fk[first]; p != nil {
				return Resolved{Scalar: Str(*p)}
			}
			return Resolved{}
		}
		if _, ok := st.SetSyms[first]; ok {
			elems := append([]string{}, e.Sets[first]...)
			sort.Strings(elems)
			r := Resolved{IsSet: true}
			for _, x := range elems {
				r.Elems = append(r.Elems, Str(x))
			}
			return r
		}
		if br, ok := st.BackRef[first]; ok {
			r := Resolved{IsSet: true}
			other := d.Stores[br[0]]
			for _, oid := range other.Ids() {
				if p := other.Ents[oid].Fk[br[1]]; p != nil && *p == id {
					r.Elems = append(r.Elems, Str(oid))
				}
			}
			return r
		}
		return Resolved{}
	}
	ft, _ := d.TypeOf(store, first)
	rest := strings.Join(parts[1:], ".")
	rt, _ := d.TypeOf(ft.Linked, rest)
	head := d.Resolve(store, id, first)
	if !ft.IsSet {
		if head.Scalar.IsNull() {
			if rt.IsSet {
				return Resolved{IsSet: true, NullElem: true}
			}
			return Resolved{}
		}
		return d.Resolve(ft.Linked, head.Scalar.S, rest)
	}
	out := Resolved{IsSet: true}
	for _, el := range head.Elems {
		sub := d.Resolve(ft.Linked, el.S, rest)
		if sub.IsSet {
			out.Elems = append(out.Elems, sub.Elems...)
			out.NullElem = out.NullElem || sub.NullElem
		} else {
			if sub.Scalar.IsNull() {
				out.NullElem = true
			}
			out.Elems = append(out.Elems, sub.Scalar)
		}
	}
	return out
}

// ---------------------------------------------------------------------------------------------
// filter expressions (generator-side trees)

type Expr interface {
	Text() string
}

type Lhs struct {
	Fn  string // "", "anyOf", "allOf", "count"
	Sym string
	Sub *SubQ // count(from sym where ...)
}

type SubQ struct {
	Sym   string
	Where Expr
	Skip  *int64
	Limit *int64
}

func (s *SubQ) Text() string {
	t := "from " + s.Sym + " where " + s.Where.Text()
	if s.Skip != nil {
		t += fmt.Sprintf(" skip %d", *s.Skip)
	}
	if s.Limit != nil {
		t += fmt.Sprintf(" limit %d", *s.Limit)
	}
	return t
}

func (l Lhs) Text() string {
	inner := l.Sym
	if l.Sub != nil {
		inner = l.Sub.Text()
	}
	if l.Fn == "" {
		return inner
	}
	return l.Fn + "(" + inner + ")"
}

type Cmp struct {
	L  Lhs
	Op string // = != < <= > >= contains "not contains" icontains "not icontains"
	R  Val    // KNull = the null literal
}

func (c Cmp) Text() string {
	switch c.Op {
	case "=", "!=", "<", "<=", ">", ">=":
		return c.L.Text() + " " + c.Op + " " + Lit(c.R)
	}
	return c.L.Text() + " " + c.Op + " " + Lit(c.R)
}

type In struct {
	L    Lhs
	Not  bool
	Vals []Val
}

func (c In) Text() string {
	var ls []string
	for _, v := range c.Vals {
		ls = append(ls, Lit(v))
	}
	op := " in "
	if c.Not {
		op = " not in "
	}
	return c.L.Text() + op + "[" + strings.Join(ls, ", ") + "]"
}

type Between struct {
	L      Lhs
	Not    bool
	Lo, Hi Val
}

func (c Between) Text() string {
	op := " between "
	if c.Not {
		op = " not between "
	}
	return c.L.Text() + op + Lit(c.Lo) + " and " + Lit(c.Hi)
}

type BoolSym struct{ Sym string }

func (c BoolSym) Text() string { return c.Sym }

type BoolConst struct{ V bool }

func (c BoolConst) Text() string { return strconv.FormatBool(c.V) }

type IsEmpty struct {
	Sym string
	Sub *SubQ
}

func (c IsEmpty) Text() string {
	if c.Sub != nil {
		return "isEmpty(" + c.Sub.Text() + ")"
	}
	return "isEmpty(" + c.Sym + ")"
}

type And struct{ A, B Expr }
type Or struct{ A, B Expr }
type Not struct{ A Expr }

func paren(e Expr) string {
	switch e.(type) {
	case And, Or, Not:
		return "(" + e.Text() + ")"
	}
	return e.Text()
}
func (c And) Text() string { return paren(c.A) + " and " + paren(c.B) }
func (c Or) Text() string  { return paren(c.A) + " or " + paren(c.B) }
func (c Not) Text() string { return "not (" + c.A.Text() + ")" }

// Symbols lists every symbol an expression mentions (generator-side knowledge; used by C20).
func Symbols(e Expr) []string {
	var out []string
	var walk func(e Expr, prefix string)
	lhs := func(l Lhs, prefix string) {
		if l.Sub != nil {
			out = append(out, prefix+l.Sub.Sym)
			walk(l.Sub.Where, "")
		} else {
			out = append(out, prefix+l.Sym)
		}
	}
	walk = func(e Expr, prefix string) {
		switch c := e.(type) {
		case Cmp:
			lhs(c.L, prefix)
		case In:
			lhs(c.L, prefix)
		case Between:
			lhs(c.L, prefix)
		case BoolSym:
			out = append(out, prefix+c.Sym)
		case IsEmpty:
			lhs(Lhs{Sym: c.Sym, Sub: c.Sub}, prefix)
		case And:
			walk(c.A, prefix)
			walk(c.B, prefix)
		case Or:
			walk(c.A, prefix)
			walk(c.B, prefix)
		case Not:
			walk(c.A, prefix)
		}
	}
	walk(e, "")
	return out
}

// ---------------------------------------------------------------------------------------------
// evaluation

// Tri is the result of evaluating on one entity: a definite truth value, or Unspecified when
// the documented semantics do not settle the answer (such rows are not compared).
type Tri int

const (
	False Tri = iota
	True
	Unspecified
)

func tri(b bool) Tri {
	if b {
		return True
	}
	return False
}

// coerce converts a stored value to the comparison type chosen by (symbol type, literal type).
// Returns (value, ok); !ok means "acts as null".
func coerceTo(v Val, k Kind) (Val, bool, bool) {
	// third result: specified
	if v.IsNull() {
		return Null, false, true
	}
	switch k {
	case KStr:
		switch v.K {
		case KStr:
			return v, true, true
		case KInt:
			return Str(strconv.FormatInt(v.I, 10)), true, true
		case KFlt:
			return Str(fmtFloat(v.F)), true, true
		}
		return Null, false, false // bool/time -> string is not documented
	case KInt:
		if v.K == KInt {
			return v, true, true
		}
		return Null, false, true
	case KFlt:
		if v.K == KFlt {
			return v, true, true
		}
		if v.K == KInt {
			return Flt(float64(v.I)), true, true
		}
		return Null, false, true
	case KBool:
		if v.K == KBool {
			return v, true, true
		}
		return Null, false, true
	case KTime:
		if v.K == KTime {
			return v, true, true
		}
		return Null, false, true
	}
	return Null, false, true
}

func cmpVals(a, b Val) int {
	switch a.K {
	case KStr:
		return strings.Compare(a.S, b.S)
	case KInt:
		switch {
		case a.I < b.I:
			return -1
		case a.I > b.I:
			return 1
		}
		return 0
	case KFlt:
		switch {
		case a.F < b.F:
			return -1
		case a.F > b.F:
			return 1
		}
		return 0
	case KBool:
		if a.B == b.B {
			return 0
		}
		if !a.B {
			return -1
		}
		return 1
	case KTime:
		switch {
		case a.T.Before(b.T):
			return -1
		case a.T.After(b.T):
			return 1
		}
		return 0
	}
	return 0
}

// compKind picks the comparison domain for a symbol of static type st against literal type lit.
func compKind(st SymType, lit Kind, op string) (Kind, bool) {
	if strings.Contains(op, "contains") {
		return KStr, true
	}
	if st.Any {
		return lit, true
	}
	switch st.Kind {
	case KStr:
		if lit == KStr || lit == KInt || lit == KFlt {
			return KStr, true
		}
	case KInt:
		if lit == KInt {
			return KInt, true
		}
		if lit == KFlt {
			return KFlt, true
		}
		if lit == KStr {
			return KStr, true
		}
	case KFlt:
		if lit == KInt || lit == KFlt {
			return KFlt, true
		}
		if lit == KStr {
			return KStr, true
		}
	case KBool:
		if lit == KBool {
			return KBool, true
		}
	case KTime:
		if lit == KTime {
			return KTime, true
		}
	}
	return KNull, false
}

func evalCmpScalar(st SymType, v Val, op string, r Val) Tri {
	if r.IsNull() { // = null / != null
		if op == "=" {
			return tri(v.IsNull())
		}
		return tri(!v.IsNull())
	}
	k, ok := compKind(st, r.K, op)
	if !ok {
		return Unspecified
	}
	lv, lok, spec := coerceTo(v, k)
	if !spec || (st.Any && !lok && !v.IsNull()) {
		// any-typed field holding a value of a type the comparison cannot read: not documented
		return Unspecified
	}
	rv, _, _ := coerceTo(r, k)
	negated := strings.HasPrefix(op, "not ")
	if !lok {
		// null operand: every comparison false except != and the negated forms
		return tri(op == "!=" || negated)
	}
	switch op {
	case "=":
		return tri(cmpVals(lv, rv) == 0)
	case "!=":
		return tri(cmpVals(lv, rv) != 0)
	case "<":
		return tri(cmpVals(lv, rv) < 0)
	case "<=":
		return tri(cmpVals(lv, rv) <= 0)
	case ">":
		return tri(cmpVals(lv, rv) > 0)
	case ">=":
		return tri(cmpVals(lv, rv) >= 0)
	case "contains":
		return tri(strings.Contains(lv.S, rv.S))
	case "not contains":
		return tri(!strings.Contains(lv.S, rv.S))
	case "icontains":
		return tri(strings.Contains(strings.ToUpper(lv.S), strings.ToUpper(rv.S)))
	case "not icontains":
		return tri(!strings.Contains(strings.ToUpper(lv.S), strings.ToUpper(rv.S)))
	}
	return Unspecified
}

func evalInScalar(st SymType, v Val, not bool, vals []Val) Tri {
	// array type: all int -> int; any float -> float; strings; datetimes
	ak := vals[0].K
	for _, x := range vals {
		if x.K == KFlt && ak == KInt {
			ak = KFlt
		}
		if x.K == KInt && ak == KFlt {
			continue
		}
	}
	k, ok := compKind(st, ak, "in")
	if !ok {
		return Unspecified
	}
	lv, lok, spec := coerceTo(v, k)
	if !spec || (st.Any && !lok && !v.IsNull()) {
		return Unspecified
	}
	found := false
	if lok {
		for _, x := range vals {
			xv, xok, _ := coerceTo(x, k)
			if xok && cmpVals(lv, xv) == 0 {
				found = true
			}
		}
	}
	if not {
		return tri(!found)
	}
	return tri(found)
}

func evalBetweenScalar(st SymType, v Val, not bool, lo, hi Val) Tri {
	bk := lo.K
	if hi.K == KFlt || lo.K == KFlt {
		if lo.K != KTime {
			bk = KFlt
		}
	}
	if st.Kind == KStr && !st.Any {
		return Unspecified
	}
	k, ok := compKind(st, bk, "between")
	if !ok || k == KStr {
		return Unspecified
	}
	lv, lok, spec := coerceTo(v, k)
	if !spec || (st.Any && !lok && !v.IsNull()) {
		return Unspecified
	}
	res := false
	if lok {
		l, _, _ := coerceTo(lo, k)
		h, _, _ := coerceTo(hi, k)
		res = cmpVals(lv, l) >= 0 && cmpVals(lv, h) < 0 // inclusive lower, exclusive upper
	}
	if not {
		return tri(!res)
	}
	return tri(res)
}

// Eval evaluates e for entity id of store.
func (d *DS) Eval(store, id string, e Expr) Tri {
	switch c := e.(type) {
	case BoolConst:
		return tri(c.V)
	case BoolSym:
		r := d.Resolve(store, id, c.Sym)
		st, _ := d.TypeOf(store, c.Sym)
		if st.Any && !r.Scalar.IsNull() && r.Scalar.K != KBool {
			return Unspecified
		}
		return tri(r.Scalar.K == KBool && r.Scalar.B)
	case And:
		a, b := d.Eval(store, id, c.A), d.Eval(store, id, c.B)
		if a == Unspecified || b == Unspecified {
			return Unspecified
		}
		return tri(a == True && b == True)
	case Or:
		a, b := d.Eval(store, id, c.A), d.Eval(store, id, c.B)
		if a == Unspecified || b == Unspecified {
			return Unspecified
		}
		return tri(a == True || b == True)
	case Not:
		a := d.Eval(store, id, c.A)
		if a == Unspecified {
			return Unspecified
		}
		return tri(a == False)
	case IsEmpty:
		n, spec := d.count(store, id, Lhs{Sym: c.Sym, Sub: c.Sub})
		if !spec {
			return Unspecified
		}
		return tri(n == 0)
	case Cmp:
		return d.evalLhs(store, id, c.L, func(st SymType, v Val) Tri { return evalCmpScalar(st, v, c.Op, c.R) })
	case In:
		return d.evalLhs(store, id, c.L, func(st SymType, v Val) Tri { return evalInScalar(st, v, c.Not, c.Vals) })
	case Between:
		return d.evalLhs(store, id, c.L, func(st SymType, v Val) Tri { return evalBetweenScalar(st, v, c.Not, c.Lo, c.Hi) })
	}
	return Unspecified
}

func (d *DS) count(store, id string, l Lhs) (int64, bool) {
	if l.Sub != nil {
		st, ok := d.TypeOf(store, l.Sub.Sym)
		if !ok || st.Linked == "" {
			return 0, false
		}
		r := d.Resolve(store, id, l.Sub.Sym)
		if r.NullElem {
			return 0, false
		}
		var n int64
		for _, el := range r.Elems {
			t := d.Eval(st.Linked, el.S, l.Sub.Where)
			if t == Unspecified {
				return 0, false
			}
			if t == True {
				n++
			}
		}
		// paging inside the sub-query
		if l.Sub.Skip != nil && *l.Sub.Skip > 0 {
			n -= *l.Sub.Skip
			if n < 0 {
				n = 0
			}
		}
		if l.Sub.Limit != nil && *l.Sub.Limit >= 0 && n > *l.Sub.Limit {
			n = *l.Sub.Limit
		}
		return n, true
	}
	r := d.Resolve(store, id, l.Sym)
	if r.NullElem {
		return 0, false
	}
	return int64(len(r.Elems)), true
}

func (d *DS) evalLhs(store, id string, l Lhs, f func(st SymType, v Val) Tri) Tri {
	switch l.Fn {
	case "":
		st, ok := d.TypeOf(store, l.Sym)
		if !ok || st.IsSet {
			return Unspecified
		}
		return f(st, d.Resolve(store, id, l.Sym).Scalar)
	case "count":
		n, spec := d.count(store, id, l)
		if !spec {
			return Unspecified
		}
		return f(SymType{Kind: KInt}, Int(n))
	case "anyOf", "allOf":
		st, ok := d.TypeOf(store, l.Sym)
		if !ok || !st.IsSet {
			return Unspecified
		}
		est := st
		est.IsSet = false
		r := d.Resolve(store, id, l.Sym)
		any, all := false, true
		for _, el := range r.Elems {
			t := f(est, el)
			if t == Unspecified {
				return Unspecified
			}
			if t == True {
				any = true
			} else {
				all = false
			}
		}
		if l.Fn == "anyOf" {
			return tri(any)
		}
		return tri(all)
	}
	return Unspecified
}
