package refmodel

import (
	"regexp"
	"strings"
)

// Independent recogniser for zitiql/ZitiQl.g4: a maximal-munch lexer over the token rules in file
// order (longest match, earlier rule wins ties; WS are tokens because the grammar spells them out)
// and a memoised backtracking matcher for the parser rules.

type Tok struct {
	Kind string
	Text string
}

type tokRule struct {
	kind string
	re   *regexp.Regexp
}

func ci(word string) string {
	var b strings.Builder
	for _, r := range word {
		if (r >= 'a' && r <= 'z') || (r >= 'A' && r <= 'Z') {
			b.WriteString("[" + strings.ToLower(string(r)) + strings.ToUpper(string(r)) + "]")
		} else {
			b.WriteString(regexp.QuoteMeta(string(r)))
		}
	}
	return b.String()
}

const wsClass = `[ \n\t\r]`

var (
	reInt      = `(?:0|[1-9][0-9]*)`
	reFullDate = `(?:` + reInt + `)+-(?:0[1-9]|1[012])-(?:0[1-9]|[12][0-9]|3[01])`
	reOffset   = `(?:[zZ]|[+-](?:[01][0-9]|2[0-3]):[0-5][0-9])`
	reFullTime = `(?:[01][0-9]|2[0-3]):[0-5][0-9]:(?:[0-5][0-9]|60)(?:\.[0-9]+)?` + reOffset
	reRfc3339  = reFullDate + `[tT]` + reFullTime
	reIdentSeg = `[A-Za-z][A-Za-z_]*(?:\.[A-Za-z][A-Za-z_\-]*)*`
)

var tokRules = func() []tokRule {
	mk := func(kind, pattern string) tokRule {
		re := regexp.MustCompile(`^(?:` + pattern + `)`)
		re.Longest()
		return tokRule{kind, re}
	}
	return []tokRule{
		mk("COMMA", `,`), // implicit literal token of the parser rules
		mk("WS", wsClass),
		mk("LPAREN", `\(`),
		mk("RPAREN", `\)`),
		mk("LBRACKET", `\[`),
		mk("RBRACKET", `\]`),
		mk("AND", ci("and")),
		mk("OR", ci("or")),
		mk("LT", `<=?`),
		mk("GT", `>=?`),
		mk("EQ", `!?=`),
		mk("CONTAINS", `(?:`+ci("not")+wsClass+`+)?`+ci("contains")),
		mk("ICONTAINS", `(?:`+ci("not")+wsClass+`+)?`+ci("icontains")),
		mk("IN", `(?:`+ci("not")+wsClass+`)?`+ci("in")),
		mk("BETWEEN", `(?:`+ci("not")+wsClass+`+)?`+ci("between")),
		mk("BOOL", ci("true")+`|`+ci("false")),
		mk("DATETIME", `datetime\(`+wsClass+`*`+reRfc3339+wsClass+`*\)`),
		mk("ALL_OF", ci("allof")),
		mk("ANY_OF", ci("anyof")),
		mk("COUNT", ci("count")),
		mk("ISEMPTY", ci("isempty")),
		mk("STRING", `"(?:\\["\\fnrt]|[^"\\\x00-\x1F])*"`),
		mk("NUMBER", `-?`+reInt+`(?:\.[0-9]+)?(?:[Ee][+\-]?`+reInt+`)?`),
		mk("NULL", ci("null")),
		mk("NOT", ci("not")),
		mk("ASC", ci("asc")),
		mk("DESC", ci("desc")),
		mk("SORT", ci("sort")),
		mk("BY", ci("by")),
		mk("SKIP_ROWS", ci("skip")),
		mk("LIMIT_ROWS", ci("limit")),
		mk("NONE", ci("none")),
		mk("WHERE", ci("where")),
		mk("FROM", ci("from")),
		mk("IDENTIFIER", reIdentSeg+`|'`+reIdentSeg+`'`),
		mk("RFC3339_DATE_TIME", reRfc3339),
	}
}()

// Lex tokenises text. ok is false if some character is not the start of any token.
func Lex(text string) (toks []Tok, ok bool) {
	ok = true
	for len(text) > 0 {
		best, bestKind := 0, ""
		for _, r := range tokRules {
			if loc := r.re.FindStringIndex(text); loc != nil && loc[1] > best {
				best, bestKind = loc[1], r.kind
			}
		}
		if best == 0 {
			// the generated lexer drops the offending character and carries on; remember that it happened
			ok = false
			_, size := decodeRune(text)
			text = text[size:]
			continue
		}
		toks = append(toks, Tok{bestKind, text[:best]})
		text = text[best:]
	}
	return toks, ok
}

func decodeRune(s string) (rune, int) {
	for i, r := range s {
		if i > 0 {
			return 0, i
		}
		_ = r
	}
	return 0, len(s)
}

type recog struct {
	t    []Tok
	memo map[[2]int][]int
}

const (
	rQuery = iota
	rBoolExpr
	rSortBy
	rSkip
	rLimit
	rSortField
	rOperation
	rBinaryLhs
	rSetFunction
	rSetExpr
	rSubQuery
	rPrimary
)

func (r *recog) is(pos int, kind string) bool { return pos < len(r.t) && r.t[pos].Kind == kind }

// ws0 returns all positions reachable by consuming WS* from each start.
func (r *recog) ws0(starts []int) []int {
	set := map[int]bool{}
	for _, s := range starts {
		p := s
		set[p] = true
		for r.is(p, "WS") {
			p++
			set[p] = true
		}
	}
	return keys(set)
}

func (r *recog) ws1(starts []int) []int {
	set := map[int]bool{}
	for _, s := range starts {
		p := s
		for r.is(p, "WS") {
			p++
			set[p] = true
		}
	}
	return keys(set)
}

func keys(m map[int]bool) []int {
	out := make([]int, 0, len(m))
	for k := range m {
		out = append(out, k)
	}
	return out
}

func (r *recog) tok(starts []int, kinds ...string) []int {
	set := map[int]bool{}
	for _, s := range starts {
		for _, k := range kinds {
			if r.is(s, k) {
				set[s+1] = true
			}
		}
	}
	return keys(set)
}

func (r *recog) rule(id int, starts []int) []int {
	set := map[int]bool{}
	for _, s := range starts {
		for _, e := range r.rule1(id, s) {
			set[e] = true
		}
	}
	return keys(set)
}

func (r *recog) rule1(id, pos int) []int {
	key := [2]int{id, pos}
	if v, ok := r.memo[key]; ok {
		return v
	}
	r.memo[key] = nil // guards (non-productive) recursion
	one := []int{pos}
	var out []int
	add := func(ends []int) { out = append(out, ends...) }
	opt := func(base []int, f func([]int) []int) []int { return append(append([]int{}, base...), f(base)...) }
	switch id {
	case rQuery:
		// boolExpr (WS+ sortBy)? (WS+ skip)? (WS+ limit)?
		e := r.rule(rBoolExpr, one)
		e = opt(e, func(b []int) []int { return r.rule(rSortBy, r.ws1(b)) })
		e = opt(e, func(b []int) []int { return r.rule(rSkip, r.ws1(b)) })
		e = opt(e, func(b []int) []int { return r.rule(rLimit, r.ws1(b)) })
		add(e)
		// sortBy (WS+ skip)? (WS+ limit)?
		e = r.rule(rSortBy, one)
		e = opt(e, func(b []int) []int { return r.rule(rSkip, r.ws1(b)) })
		e = opt(e, func(b []int) []int { return r.rule(rLimit, r.ws1(b)) })
		add(e)
		// skip (WS+ limit)?
		e = r.rule(rSkip, one)
		e = opt(e, func(b []int) []int { return r.rule(rLimit, r.ws1(b)) })
		add(e)
		add(r.rule(rLimit, one))
	case rSkip:
		add(r.tok(r.ws1(r.tok(one, "SKIP_ROWS")), "NUMBER"))
	case rLimit:
		add(r.tok(r.ws1(r.tok(one, "LIMIT_ROWS")), "NONE", "NUMBER"))
	case rSortBy:
		e := r.rule(rSortField, r.ws1(r.tok(r.ws1(r.tok(one, "SORT")), "BY")))
		all := map[int]bool{}
		frontier := e
		for len(frontier) > 0 {
			var next []int
			for _, p := range frontier {
				if !all[p] {
					all[p] = true
					next = append(next, p)
				}
			}
			frontier = r.rule(rSortField, r.ws0(r.tok(r.ws0(next), "COMMA")))
		}
		add(keys(all))
	case rSortField:
		e := r.tok(one, "IDENTIFIER")
		e = opt(e, func(b []int) []int { return r.tok(r.ws1(b), "ASC", "DESC") })
		add(e)
	case rPrimary:
		add(r.rule(rOperation, one))
		add(r.tok(r.ws0(r.rule(rBoolExpr, r.ws0(r.tok(one, "LPAREN")))), "RPAREN"))
		add(r.tok(one, "BOOL"))
		add(r.tok(r.ws0(r.rule(rSetExpr, r.ws0(r.tok(r.tok(one, "ISEMPTY"), "LPAREN")))), "RPAREN"))
		add(r.tok(one, "IDENTIFIER"))
		add(r.rule(rBoolExpr, r.ws1(r.tok(one, "NOT"))))
	case rBoolExpr:
		// language of the left-recursive rule: primary (WS+ (AND|OR) WS+ boolExpr)*
		p := r.rule(rPrimary, one)
		all := map[int]bool{}
		frontier := p
		for len(frontier) > 0 {
			var next []int
			for _, x := range frontier {
				if !all[x] {
					all[x] = true
					next = append(next, x)
				}
			}
			frontier = r.rule(rBoolExpr, r.ws1(r.tok(r.ws1(next), "AND", "OR")))
		}
		add(keys(all))
	case rBinaryLhs:
		add(r.tok(one, "IDENTIFIER"))
		add(r.rule(rSetFunction, one))
	case rSetFunction:
		add(r.tok(r.ws0(r.tok(r.ws0(r.tok(r.tok(one, "ALL_OF", "ANY_OF"), "LPAREN")), "IDENTIFIER")), "RPAREN"))
		add(r.tok(r.ws0(r.rule(rSetExpr, r.ws0(r.tok(r.tok(one, "COUNT"), "LPAREN")))), "RPAREN"))
	case rSetExpr:
		add(r.tok(one, "IDENTIFIER"))
		add(r.rule(rSubQuery, one))
	case rSubQuery:
		add(r.rule(rQuery, r.ws1(r.tok(r.ws1(r.tok(r.ws1(r.tok(one, "FROM")), "IDENTIFIER")), "WHERE"))))
	case rOperation:
		lhs := r.rule(rBinaryLhs, one)
		array := func(starts []int, elem string) []int {
			e := r.tok(r.ws0(r.tok(starts, "LBRACKET")), elem)
			all := map[int]bool{}
			frontier := e
			for len(frontier) > 0 {
				var next []int
				for _, x := range frontier {
					if !all[x] {
						all[x] = true
						next = append(next, x)
					}
				}
				frontier = r.tok(r.ws0(r.tok(r.ws0(next), "COMMA")), elem)
			}
			return r.tok(r.ws0(keys(all)), "RBRACKET")
		}
		in := r.ws1(r.tok(r.ws1(lhs), "IN"))
		add(array(in, "STRING"))
		add(array(in, "NUMBER"))
		add(array(in, "DATETIME"))
		bt := r.ws1(r.tok(r.ws1(lhs), "BETWEEN"))
		add(r.tok(r.ws1(r.tok(r.ws1(r.tok(bt, "NUMBER")), "AND")), "NUMBER"))
		add(r.tok(r.ws1(r.tok(r.ws1(r.tok(bt, "DATETIME")), "AND")), "DATETIME"))
		add(r.tok(r.ws0(r.tok(r.ws0(lhs), "LT", "GT")), "STRING", "NUMBER", "DATETIME"))
		add(r.tok(r.ws0(r.tok(r.ws0(lhs), "EQ")), "STRING", "NUMBER", "DATETIME", "BOOL", "NULL"))
		add(r.tok(r.ws1(r.tok(r.ws0(lhs), "CONTAINS")), "STRING", "NUMBER"))
		add(r.tok(r.ws1(r.tok(r.ws0(lhs), "ICONTAINS")), "STRING"))
	}
	set := map[int]bool{}
	for _, e := range out {
		set[e] = true
	}
	res := keys(set)
	r.memo[key] = res
	return res
}

// InGrammar reports whether text is a sentence of the grammar (start: WS* query WS* EOF) and
// whether every character belonged to some token.
func InGrammar(text string) (sentence bool, lexOk bool) {
	toks, lexOk := Lex(text)
	r := &recog{t: toks, memo: map[[2]int][]int{}}
	ends := r.ws0(r.rule(rQuery, r.ws0([]int{0})))
	for _, e := range ends {
		if e == len(toks) {
			return true, lexOk
		}
	}
	return false, lexOk
}
