package refmodel

import "sort"

type SortField struct {
	Sym  string
	Desc bool
	// Explicit: direction keyword written out ("asc"/"desc") or left to the default (ascending)
	Explicit bool
}

// cmpNullable: nulls first when ascending.
func cmpNullable(a, b Val) int {
	switch {
	case a.IsNull() && b.IsNull():
		return 0
	case a.IsNull():
		return -1
	case b.IsNull():
		return 1
	}
	return cmpVals(a, b)
}

// SortPage orders ids by the sort fields (ties by id ascending), drops max(skip,0) rows and
// keeps at most limit rows; limit < 0 means unbounded. Returns the page and the total count.
func (d *DS) SortPage(store string, ids []string, sortBy []SortField, skip int64, limit int64) ([]string, int64) {
	out := append([]string{}, ids...)
	sort.SliceStable(out, func(x, y int) bool {
		for _, sf := range sortBy {
			a := d.Resolve(store, out[x], sf.Sym).Scalar
			b := d.Resolve(store, out[y], sf.Sym).Scalar
			c := cmpNullable(a, b)
			if sf.Desc {
				c = -c
			}
			if c != 0 {
				return c < 0
			}
		}
		return out[x] < out[y]
	})
	total := int64(len(out))
	if skip > 0 {
		if skip >= int64(len(out)) {
			out = nil
		} else {
			out = out[skip:]
		}
	}
	if limit >= 0 && int64(len(out)) > limit {
		out = out[:limit]
	}
	return out, total
}
