// Package vsync is the drop-in replacement for the sync primitives (and for `go` statements) that
// the overlay build substitutes into openziti/storage. Without an installed scheduler every type
// delegates to the real sync package and spawned goroutines are only tracked (WaitIdle); with a
// scheduler installed (package vsched) every operation is a scheduling point of the cooperative,
// exhaustively explored execution.
package vsync

import (
	"sync"
	"sync/atomic"
)

// Hooks is implemented by the scheduler.
type Hooks interface {
	// Yield is a scheduling point of the running thread; it returns once the scheduler resumes the
	// thread, which it only does while guard() is true (guard == nil means always enabled).
	Yield(what string, guard func() bool)
	// Spawn starts f as a new scheduled thread.
	Spawn(name string, f func())
}

var hooks atomic.Value // holds hooksBox

type hooksBox struct{ h Hooks }

func Install(h Hooks) { hooks.Store(hooksBox{h}) }
func Uninstall()      { hooks.Store(hooksBox{nil}) }
func cur() Hooks {
	if b, ok := hooks.Load().(hooksBox); ok {
		return b.h
	}
	return nil
}

// Yield lets harness code place an explicit scheduling point (no-op without a scheduler).
func Yield(what string) {
	if h := cur(); h != nil {
		h.Yield(what, nil)
	}
}

// ---- tracked goroutines -----------------------------------------------------------------------

var (
	idleMu     sync.Mutex
	idleCond   = sync.NewCond(&idleMu)
	active     int64
	spawnCount int64
)

func spawn(name string, f func()) {
	atomic.AddInt64(&spawnCount, 1)
	if h := cur(); h != nil {
		h.Spawn(name, f)
		return
	}
	idleMu.Lock()
	active++
	idleMu.Unlock()
	go func() {
		defer func() {
			idleMu.Lock()
			active--
			if active == 0 {
				idleCond.Broadcast()
			}
			idleMu.Unlock()
		}()
		f()
	}()
}

// Go0 replaces `go f()`.
func Go0(f func()) { spawn("go", f) }

// Go1 replaces `go f(a)`: the function value and its argument are evaluated by the caller, as the
// language specifies for a go statement.
func Go1[A any](f func(A), a A) { spawn("go", func() { f(a) }) }

// Go2 replaces `go f(a, b)`.
func Go2[A, B any](f func(A, B), a A, b B) { spawn("go", func() { f(a, b) }) }

// WaitIdle blocks until a moment at which no goroutine spawned through this package (outside a
// scheduler) is running. A goroutine increments the count for a child before it finishes itself, so
// observing zero after one's own transaction returned means all of its (transitive) spawns are done;
// waiting for other workers' short-lived goroutines as well is harmless.
func WaitIdle() {
	idleMu.Lock()
	for active != 0 {
		idleCond.Wait()
	}
	idleMu.Unlock()
}

// SpawnCount is the number of goroutines spawned so far (for evidence).
func SpawnCount() int64 { return atomic.LoadInt64(&spawnCount) }

// ---- Mutex -------------------------------------------------------------------------------------

type Mutex struct {
	real sync.Mutex
	held bool
}

func (m *Mutex) Lock() {
	if h := cur(); h != nil {
		h.Yield("Mutex.Lock", func() bool { return !m.held })
		m.held = true
		return
	}
	m.real.Lock()
}

func (m *Mutex) Unlock() {
	if h := cur(); h != nil {
		m.held = false
		h.Yield("Mutex.Unlock", nil)
		return
	}
	m.real.Unlock()
}

func (m *Mutex) TryLock() bool {
	if h := cur(); h != nil {
		h.Yield("Mutex.TryLock", nil)
		if m.held {
			return false
		}
		m.held = true
		return true
	}
	return m.real.TryLock()
}

// ---- RWMutex (writer preference exactly as in the Go runtime: a waiting Lock blocks later RLocks) --

type RWMutex struct {
	real           sync.RWMutex
	readers        int
	writer         bool
	waitingWriters int
	// free-running mode bookkeeping (atomic): lets a sequential harness assert that an API call
	// released every lock it took before the next call could block on it forever
	realReaders int32
	realWriter  int32
}

// Held reports how many read locks and whether the write lock are currently held.
func (m *RWMutex) Held() (readers int, writer bool) {
	if cur() != nil {
		return m.readers, m.writer
	}
	return int(atomic.LoadInt32(&m.realReaders)), atomic.LoadInt32(&m.realWriter) != 0
}

func (m *RWMutex) RLock() {
	if h := cur(); h != nil {
		h.Yield("RWMutex.RLock", func() bool { return !m.writer && m.waitingWriters == 0 })
		m.readers++
		return
	}
	m.real.RLock()
	atomic.AddInt32(&m.realReaders, 1)
}

func (m *RWMutex) RUnlock() {
	if h := cur(); h != nil {
		m.readers--
		h.Yield("RWMutex.RUnlock", nil)
		return
	}
	atomic.AddInt32(&m.realReaders, -1)
	m.real.RUnlock()
}

func (m *RWMutex) Lock() {
	if h := cur(); h != nil {
		// announce: from here on new readers are held back
		h.Yield("RWMutex.Lock(announce)", func() bool { return !m.writer })
		m.waitingWriters++
		h.Yield("RWMutex.Lock(acquire)", func() bool { return !m.writer && m.readers == 0 })
		m.waitingWriters--
		m.writer = true
		return
	}
	m.real.Lock()
	atomic.StoreInt32(&m.realWriter, 1)
}

func (m *RWMutex) Unlock() {
	if h := cur(); h != nil {
		m.writer = false
		h.Yield("RWMutex.Unlock", nil)
		return
	}
	atomic.StoreInt32(&m.realWriter, 0)
	m.real.Unlock()
}

func (m *RWMutex) RLocker() sync.Locker { return (*rlocker)(m) }

type rlocker RWMutex

func (r *rlocker) Lock()   { (*RWMutex)(r).RLock() }
func (r *rlocker) Unlock() { (*RWMutex)(r).RUnlock() }

// ---- Once --------------------------------------------------------------------------------------

type Once struct {
	real    sync.Once
	done    bool
	running bool
}

func (o *Once) Do(f func()) {
	if h := cur(); h != nil {
		h.Yield("Once.Do", func() bool { return !o.running })
		if o.done {
			return
		}
		o.running = true
		defer func() { o.running = false; o.done = true }()
		f()
		return
	}
	o.real.Do(f)
}

// ---- WaitGroup ---------------------------------------------------------------------------------

type WaitGroup struct {
	real sync.WaitGroup
	n    int
}

func (w *WaitGroup) Add(d int) {
	if cur() != nil {
		w.n += d
		return
	}
	w.real.Add(d)
}
func (w *WaitGroup) Done() { w.Add(-1) }
func (w *WaitGroup) Wait() {
	if h := cur(); h != nil {
		h.Yield("WaitGroup.Wait", func() bool { return w.n <= 0 })
		return
	}
	w.real.Wait()
}

// ---- Pool: under a scheduler the answer of Get is an explorer choice ---------------------------

// PoolChooser is implemented by the scheduler to decide which pooled instance Get returns.
type PoolChooser interface {
	// Choose returns an index in [0,n]: n means "allocate a new instance".
	Choose(n int) int
}

type Pool struct {
	New        func() any
	real       sync.Pool
	once       sync.Once
	items      []any
	registered bool
}

var (
	poolsMu sync.Mutex
	pools   []*Pool
)

func (p *Pool) register() {
	if !p.registered {
		p.registered = true
		poolsMu.Lock()
		pools = append(pools, p)
		poolsMu.Unlock()
	}
}

// ResetPools empties the scheduler-mode contents of every pool (called at the start of each
// explored execution so that executions do not influence each other).
func ResetPools() {
	poolsMu.Lock()
	for _, p := range pools {
		p.items = nil
	}
	poolsMu.Unlock()
}

func (p *Pool) Get() any {
	if h := cur(); h != nil {
		p.register()
		h.Yield("Pool.Get", nil)
		if pc, ok := h.(PoolChooser); ok && len(p.items) > 0 {
			i := pc.Choose(len(p.items))
			if i < len(p.items) {
				it := p.items[i]
				p.items = append(p.items[:i], p.items[i+1:]...)
				return it
			}
		} else if len(p.items) > 0 {
			it := p.items[len(p.items)-1]
			p.items = p.items[:len(p.items)-1]
			return it
		}
		if p.New != nil {
			return p.New()
		}
		return nil
	}
	p.once.Do(func() { p.real.New = p.New })
	return p.real.Get()
}

func (p *Pool) Put(x any) {
	if h := cur(); h != nil {
		p.register()
		p.items = append(p.items, x)
		h.Yield("Pool.Put", nil)
		return
	}
	p.once.Do(func() { p.real.New = p.New })
	p.real.Put(x)
}
