package checks

import (
	"context"
	"fmt"
	"os"
	"runtime"
	"sort"
	"strings"
	"sync"
	"sync/atomic"

	"github.com/openziti/storage/boltz"
	"go.etcd.io/bbolt"
	"verif/explore"
	"verif/report"
	"verif/vsync"
	"verif/world"
)

// ---------------------------------------------------------------------------------------------
// C08 — entity events: exactly once per committed change, none for undone work.

type c08World struct {
	k      *kitchen
	mu     sync.Mutex
	events []string // "store|style|type|id|state"
	commit int64
	txDone int64
	// "after the commit": when an id-only listener runs, a fresh read transaction must already show the state the
	// whole transaction leaves behind (the entity is present iff the reference model still has it; its name is final)
	curDb     *boltz.DbImpl
	afterTx   *kModel
	tooEarly  []string
	earlyMu   sync.Mutex
	visChecks int64
}

func (w *c08World) rec(store, style string, t boltz.EntityEventType, id, state string) {
	if strings.HasPrefix(style, "EntityIdListener") && w.curDb != nil && w.afterTx != nil && (store == "people" || store == "mgr" || store == "prof") {
		atomic.AddInt64(&w.visChecks, 1)
		wantP := w.afterTx.people[id]
		_ = w.curDb.View(func(tx *bbolt.Tx) error {
			e, found, err := w.k.people.FindById(tx, id)
			switch {
			case err != nil:
				w.early(fmt.Sprintf("%s %s listener for %s: lookup failed: %v", store, style, id, err))
			case found != (wantP != nil):
				w.early(fmt.Sprintf("%s %s %s-listener for %s ran while a fresh read transaction sees present=%v; the committed transaction leaves present=%v", store, style, c08TypeName(t), id, found, wantP != nil))
			case found && fmt.Sprint(e.F["name"]) != wantP.name:
				w.early(fmt.Sprintf("%s %s %s-listener for %s ran while a fresh read transaction sees name=%v; the committed transaction leaves name=%s", store, style, c08TypeName(t), id, e.F["name"], wantP.name))
			}
			return nil
		})
	}
	w.mu.Lock()
	w.events = append(w.events, fmt.Sprintf("%s|%s|%s|%s|%s", store, style, c08TypeName(t), id, state))
	w.mu.Unlock()
}

func (w *c08World) recAny(store, style, id string) {
	w.mu.Lock()
	w.events = append(w.events, fmt.Sprintf("%s|%s|any|%s|", store, style, id))
	w.mu.Unlock()
}

func (w *c08World) early(msg string) {
	w.earlyMu.Lock()
	w.tooEarly = append(w.tooEarly, msg)
	w.earlyMu.Unlock()
}

func c08TypeName(t boltz.EntityEventType) string {
	switch {
	case t.IsCreate():
		return "created"
	case t.IsUpdate():
		return "updated"
	}
	return "deleted"
}

// summary of the entity state a listener observes
func recSummary(store string, e boltz.Entity) string {
	r, ok := e.(*world.Rec)
	if !ok || r == nil {
		return "<nil>"
	}
	switch store {
	case "orgs", "pets":
		return r.Id
	}
	org := "null"
	if r.F[kOrgKey] != nil {
		org = r.F[kOrgKey].(string)
	}
	roles, _ := r.F["roles"].([]string)
	s := fmt.Sprintf("name=%v,roles=%v,org=%s", r.F["name"], roles, org)
	if store == "mgr" {
		s += fmt.Sprintf(",lead=%v", r.F["lead"])
	}
	if store == "prof" {
		s += fmt.Sprintf(",nick=%v", r.F["nick"])
	}
	return s
}

func modelSummary(store string, id string, p *kPerson) string {
	s := fmt.Sprintf("name=%v,roles=%v,org=%s", p.name, p.roles, orgS(p.org))
	if len(p.roles) == 0 {
		s = fmt.Sprintf("name=%v,roles=[],org=%s", p.name, orgS(p.org))
	}
	if store == "mgr" {
		if p.lead == nil {
			s += ",lead=<nil>"
		} else {
			s += fmt.Sprintf(",lead=%v", *p.lead)
		}
	}
	if store == "prof" {
		if p.nick == nil {
			s += ",nick=<nil>"
		} else {
			s += fmt.Sprintf(",nick=%v", *p.nick)
		}
	}
	return s
}

type typedListener struct {
	w     *c08World
	store string
	style string
	t     boltz.EntityEventType
}

func (l *typedListener) HandleEntityEvent(e *world.Rec) {
	l.w.rec(l.store, l.style, l.t, e.Id, recSummary(l.store, e))
}

type typedConstraint struct {
	w     *c08World
	store string
}

func (c *typedConstraint) ProcessPreCommit(*boltz.EntityChangeState[*world.Rec]) error { return nil }
func (c *typedConstraint) ProcessPostCommit(state *boltz.EntityChangeState[*world.Rec]) {
	var e boltz.Entity = state.FinalState
	if state.ChangeType == boltz.EntityDeleted {
		e = state.InitialState
	}
	c.w.rec(c.store, "EntityConstraint", state.ChangeType, state.EntityId, recSummary(c.store, e))
}

type untypedConstraint struct {
	w     *c08World
	store string
}

func (c *untypedConstraint) ProcessPreCommit(boltz.UntypedEntityChangeState) error { return nil }
func (c *untypedConstraint) ProcessPostCommit(state boltz.UntypedEntityChangeState) {
	e := state.GetFinalState()
	if state.GetChangeType() == boltz.EntityDeleted {
		e = state.GetInitialState()
	}
	c.w.rec(c.store, "UntypedEntityConstraint", state.GetChangeType(), state.GetEntityId(), recSummary(c.store, e))
}

var c08Styles = []string{"EntityEventListener", "EntityEventListener/async", "EntityEventListenerF", "EntityEventListenerF/async", "Listener", "Listener/async", "EntityIdListener", "EntityIdListener/async", "EntityConstraint", "UntypedEntityConstraint",
	// one registration call naming all three change types (the event type is not passed to these callbacks, so the
	// recorded type is "any" and the reference expects one such event per committed change of any type)
	"Listener/all-types-at-once", "EntityIdListener/all-types-at-once", "EntityEventListenerF/all-types-at-once"}

func newC08World() *c08World {
	w := &c08World{}
	w.k = newKitchen("events", kFeat{orgs: true, pets: true})
	stores := map[string]*world.Store{"people": w.k.people, "mgr": w.k.mgr, "prof": w.k.prof, "orgs": w.k.orgs, "pets": w.k.pets}
	syncT := []boltz.EntityEventType{boltz.EntityCreated, boltz.EntityUpdated, boltz.EntityDeleted}
	asyncT := []boltz.EntityEventType{boltz.EntityCreatedAsync, boltz.EntityUpdatedAsync, boltz.EntityDeletedAsync}
	// the optional further change types are passed as a spread slice the caller built once and re-uses (empty, with
	// spare capacity): a registration must not keep or write into the caller's slice
	spare := make([]boltz.EntityEventType, 0, 4)
	for name, s := range stores {
		name, s := name, s
		for i := range syncT {
			st, at := syncT[i], asyncT[i]
			// one registration per change type, so every registration is "registered for that change type" only
			s.AddEntityEventListener(&typedListener{w, name, "EntityEventListener", st}, st, spare...)
			s.AddEntityEventListener(&typedListener{w, name, "EntityEventListener/async", at}, at, spare...)
			s.AddEntityEventListenerF(func(e *world.Rec) { w.rec(name, "EntityEventListenerF", st, e.Id, recSummary(name, e)) }, st, spare...)
			s.AddEntityEventListenerF(func(e *world.Rec) { w.rec(name, "EntityEventListenerF/async", at, e.Id, recSummary(name, e)) }, at, spare...)
			s.AddListener(func(e boltz.Entity) { w.rec(name, "Listener", st, e.GetId(), recSummary(name, e)) }, st, spare...)
			s.AddListener(func(e boltz.Entity) { w.rec(name, "Listener/async", at, e.GetId(), recSummary(name, e)) }, at, spare...)
			s.AddEntityIdListener(func(id string) { w.rec(name, "EntityIdListener", st, id, "") }, st, spare...)
			s.AddEntityIdListener(func(id string) { w.rec(name, "EntityIdListener/async", at, id, "") }, at, spare...)
		}
		s.AddListener(func(e boltz.Entity) { w.recAny(name, "Listener/all-types-at-once", e.GetId()) }, boltz.EntityCreated, boltz.EntityUpdated, boltz.EntityDeleted)
		s.AddEntityIdListener(func(id string) { w.recAny(name, "EntityIdListener/all-types-at-once", id) }, boltz.EntityDeletedAsync, boltz.EntityCreatedAsync, boltz.EntityUpdatedAsync)
		s.AddEntityEventListenerF(func(e *world.Rec) { w.recAny(name, "EntityEventListenerF/all-types-at-once", e.Id) }, boltz.EntityUpdated, boltz.EntityDeleted, boltz.EntityCreated)
		s.AddEntityConstraint(&typedConstraint{w, name})
		s.AddUntypedEntityConstraint(&untypedConstraint{w, name})
	}
	return w
}

// expectedEvents derives the reference event list of one accepted operation from the model before and after it.
func (w *c08World) expectedEvents(info kOpInfo, pre, post *kModel) []string {
	var out []string
	if info.kind == "deleteIfPresent" {
		if pre.people[info.id] == nil {
			return nil // the store call failed (not found) and the caller went on: nothing was deleted
		}
		info.kind = "delete"
	}
	add := func(store, typ, id, state string) {
		for _, style := range c08Styles {
			st := state
			if strings.HasPrefix(style, "EntityIdListener") {
				st = ""
			}
			if strings.HasSuffix(style, "/all-types-at-once") {
				out = append(out, fmt.Sprintf("%s|%s|any|%s|", store, style, id))
				continue
			}
			out = append(out, fmt.Sprintf("%s|%s|%s|%s|%s", store, style, typ, id, st))
		}
	}
	switch info.via {
	case "orgs", "pets":
		if info.kind == "create" {
			add(info.via, "created", info.id, info.id)
		} else if info.kind == "delete" {
			add(info.via, "deleted", info.id, info.id)
		}
		return out
	}
	switch info.kind {
	case "create":
		p := post.people[info.id]
		add(info.via, "created", info.id, modelSummary(info.via, info.id, p))
		if info.via != "people" {
			add("people", "created", info.id, modelSummary("people", info.id, p))
		}
	case "update", "patch":
		cur := pre.people[info.id]
		p := post.people[info.id]
		handled := info.via
		if handled == "people" {
			if cur.mgr {
				handled = "mgr"
			} else if cur.prof {
				handled = "prof"
			}
		}
		add(handled, "updated", info.id, modelSummary(handled, info.id, p))
		if handled != "people" {
			add("people", "updated", info.id, modelSummary("people", info.id, p))
		}
	case "delete":
		cur := pre.people[info.id]
		if cur.mgr {
			add("mgr", "deleted", info.id, modelSummary("mgr", info.id, cur))
		}
		if cur.prof {
			add("prof", "deleted", info.id, modelSummary("prof", info.id, cur))
		}
		add("people", "deleted", info.id, modelSummary("people", info.id, cur))
		for pet, owner := range pre.pets {
			if owner == info.id {
				add("pets", "deleted", pet, pet)
			}
		}
	}
	return out
}

func C08(tier string) int {
	rep := report.New("C08", tier, "model_checking")
	thorough := tier != "quick"
	rep.Assume("goroutines started by the library (commit actions, async listeners) are joined through the tracked-spawn overlay")
	rep.Assume("events on the extended child store for entities that have no extended data are not specified and not compared; Db.Batch is compared for commit actions only (it never registers tx-complete listeners)")
	rep.Set("rule", "base states (BFS depth <= 1 quick / 2 thorough) x transactions of 1..2 (thorough: 3) operations through parent, plain child and extended child store, committed / rolled back by a caller error / rejected; ten listener registration styles x three change types on five stores; oracle: multiset of (store, style, change type, id, observed state) equals the reference list; commit actions and tx-complete listeners once per committed transaction")

	k0 := newKitchen("event base states", kFeat{orgs: true, pets: true})
	depth := 1
	if thorough {
		depth = 2
	}
	brep := report.New("C08-base", tier, "model_checking")
	ex := &explore.Explorer{Sc: k0, Cfg: explore.Config{Programs: explore.SingleOps(len(k0.Ops())), MaxDepth: depth, KeepFiles: true}, Rep: brep}
	ex.Run()
	defer os.RemoveAll(ex.Dir)
	states := ex.States
	rep.Count("states", int64(len(states)))

	var wg sync.WaitGroup
	var next int64 = -1
	for wk := 0; wk < runtime.NumCPU(); wk++ {
		wg.Add(1)
		go func() {
			defer wg.Done()
			w := newC08World()
			ops := w.k.Ops()
			var core []int
			for i, o := range ops {
				n := o.Name
				switch {
				case strings.HasPrefix(n, "createOrg"), strings.HasPrefix(n, "deleteOrg"),
					strings.HasPrefix(n, "create@people(#p1,name=A,roles=[r],org=#o1)"), strings.HasPrefix(n, "create@mgr(#p2,name=B,roles=[],org=null)"),
					strings.HasPrefix(n, "create@prof(#p2,name=A,roles=[r],org=null)"), strings.HasPrefix(n, "create@mgr(#p1,name=A,roles=[],org=null)"),
					strings.HasPrefix(n, "update@people(#p1,name=B,roles=[],org=null)"), strings.HasPrefix(n, "update@people(#p2,name=A,roles=[r],org=null)"),
					strings.HasPrefix(n, "update@mgr(#p2,name=A,roles=[r],org=null)"), strings.HasPrefix(n, "patch[name]@prof(#p2,name=B"),
					strings.HasPrefix(n, "patch[lead,nick]@mgr(#p1"), strings.HasPrefix(n, "delete@people(#p1)"), strings.HasPrefix(n, "delete@mgr(#p2)"),
					strings.HasPrefix(n, "delete@prof(#p2)"), strings.HasPrefix(n, "delete@people(#p2)"), strings.HasPrefix(n, "createPet(#t1,owner=#p1)"), strings.HasPrefix(n, "deletePet"):
					core = append(core, i)
				}
			}
			var bodies [][]int
			for i := range ops {
				bodies = append(bodies, []int{i})
			}
			for _, a := range core {
				for _, b := range core {
					bodies = append(bodies, []int{a, b})
				}
			}
			if thorough {
				for _, a := range core {
					for _, b := range core {
						for _, c := range core {
							if (a+2*b+3*c)%7 == 0 {
								bodies = append(bodies, []int{a, b, c})
							}
						}
					}
				}
			}
			for {
				i := int(atomic.AddInt64(&next, 1))
				if i >= len(states) || rep.TooMany() {
					return
				}
				c08State(rep, w, ops, bodies, states[i])
			}
		}()
	}
	wg.Wait()
	rep.Set("tracked_spawns", vsync.SpawnCount())
	rep.Count("traces_validated_against_impl", rep.Get("transitions"))
	c08TxCompleteSchedules(rep, thorough)
	return rep.Finish()
}

func c08State(rep *report.Report, w *c08World, ops []explore.Op, bodies [][]int, st *explore.State) {
	dummy := &c07World{}
	h := &c07Db{w: dummy, src: st.Path, path: st.Path + ".work8"}
	h.open()
	defer func() { _ = h.db.Close(); _ = os.Remove(h.path) }()
	h.db.AddTxCompleteListener(func(boltz.MutateContext) { atomic.AddInt64(&w.txDone, 1) })
	reopen := func() {
		h.reset()
		h.db.AddTxCompleteListener(func(boltz.MutateContext) { atomic.AddInt64(&w.txDone, 1) })
	}
	for bi, body := range bodies {
		// reference: apply the body to the model, collecting expected events
		m := st.Model.Clone().(*kModel)
		var want []string
		optional := map[string]bool{}
		reject, skip := -1, false
		for i, o := range body {
			pre := m.Clone().(*kModel)
			classes := ops[o].Apply(m)
			if len(classes) == 1 && classes[0] == "skip" {
				skip = true
				break
			}
			if !(len(classes) == 1 && classes[0] == "ok") {
				reject = i
				break
			}
			want = append(want, w.expectedEvents(w.k.opInfo[o], pre, m)...)
			// deleting an entity without extended data: whether the extended child store sees an event is not specified
			if info := w.k.opInfo[o]; (info.kind == "delete" || info.kind == "deleteIfPresent") && (info.via == "people" || info.via == "mgr" || info.via == "prof") {
				if cur := pre.people[info.id]; cur != nil && !cur.prof {
					optional["prof|deleted|"+info.id] = true
					optional["prof|any|"+info.id] = true
				}
			}
		}
		if skip {
			continue
		}
		// precommit-*: the transaction is rejected by a failing pre-commit action (alone / followed by a
		// succeeding one); precommit-ok: two succeeding pre-commit actions, the transaction commits
		modes := []string{"commit", "caller-error", "precommit-F", "precommit-FS", "precommit-fQ", "precommit-ok"}
		if bi%25 == 0 {
			// batch-retry: the function's first run fails with a transient error after its operations ran; bbolt's
			// batch machinery then runs it again on its own, and that run commits
			modes = append(modes, "batch", "batch-retry")
		}
		for _, mode := range modes {
			w.mu.Lock()
			w.events = nil
			w.mu.Unlock()
			atomic.StoreInt64(&w.commit, 0)
			atomic.StoreInt64(&w.txDone, 0)
			w.curDb, w.afterTx, w.tooEarly = h.db, m, nil
			attempts := 0
			fn := func(ctx boltz.MutateContext) error {
				attempts++
				if mode != "batch-retry" {
					ctx.AddCommitAction(func() { atomic.AddInt64(&w.commit, 1) })
				}
				switch mode {
				case "precommit-F":
					ctx.AddPreCommitAction(func(boltz.MutateContext) error { return errBoom })
				case "precommit-FS":
					ctx.AddPreCommitAction(func(boltz.MutateContext) error { return errBoom })
					ctx.AddPreCommitAction(func(boltz.MutateContext) error { return nil })
				case "precommit-fQ": // an action that registers a succeeding action, then a failing action that registers one too
					ctx.AddPreCommitAction(func(c boltz.MutateContext) error {
						c.AddPreCommitAction(func(boltz.MutateContext) error { return nil })
						return nil
					})
					ctx.AddPreCommitAction(func(c boltz.MutateContext) error {
						c.AddPreCommitAction(func(boltz.MutateContext) error { return nil })
						return errBoom
					})
				case "precommit-ok":
					ctx.AddPreCommitAction(func(boltz.MutateContext) error { return nil })
					ctx.AddPreCommitAction(func(boltz.MutateContext) error { return nil })
				}
				for _, o := range body {
					if err := ops[o].Do(ctx); err != nil {
						return err
					}
				}
				if mode == "caller-error" {
					return errBoom
				}
				if mode == "batch-retry" {
					if attempts == 1 {
						return errBoom
					}
					ctx.AddCommitAction(func() { atomic.AddInt64(&w.commit, 1) }) // registered by the run that commits
				}
				return nil
			}
			var err error
			ctx := boltz.NewMutateContext(context.Background())
			if mode == "batch" || mode == "batch-retry" {
				err = h.db.Batch(ctx, fn)
			} else {
				err = h.db.Update(ctx, fn)
			}
			vsync.WaitIdle()
			rep.Count("transitions", 1)
			var names []string
			for _, o := range body {
				names = append(names, ops[o].Name)
			}
			bodyName := strings.Join(names, " ; ")
			label := fmt.Sprintf("body{%s} mode=%s", bodyName, mode)
			replay := map[string]interface{}{"base_state_history": st.History, "body": names, "mode": mode}
			w.mu.Lock()
			got := append([]string{}, w.events...)
			w.mu.Unlock()
			committed := reject < 0 && mode != "caller-error" && mode != "precommit-F" && mode != "precommit-FS" && mode != "precommit-fQ"
			if committed != (err == nil) {
				rep.Violation("C08|outcome|"+bodyName+"|"+mode, fmt.Sprintf("%s: err=%v but the reference says committed=%v", label, err, committed), replay)
				reopen()
				continue
			}
			filter := func(l []string) []string {
				out := append([]string{}, l...)
				sort.Strings(out)
				return out
			}
			expect := want
			if !committed {
				expect = nil
				rep.Outcome("undone:" + mode)
			} else {
				rep.Outcome("committed:" + mode)
			}
			w.earlyMu.Lock()
			early := append([]string{}, w.tooEarly...)
			w.earlyMu.Unlock()
			rep.Count("after_commit_visibility_checks", atomic.SwapInt64(&w.visChecks, 0))
			if committed && len(early) > 0 {
				rep.Violation("C08|listener-before-commit|"+bodyName+"|"+mode, fmt.Sprintf("%s: a listener ran before its change was committed: %s", label, early[0]), replay)
			}
			g, e := filter(got), filter(expect)
			if strings.Join(g, "\n") != strings.Join(e, "\n") {
				missing, extra := diffMultiset(e, g)
				var kept []string
				for _, x := range extra {
					parts := strings.SplitN(x, "|", 5)
					if committed && optional[parts[0]+"|"+parts[2]+"|"+parts[3]] {
						continue
					}
					kept = append(kept, x)
				}
				extra = kept
				if len(missing) == 0 && len(extra) == 0 {
					goto counts
				}
				kind := "wrong-events"
				if !committed {
					kind = "events-for-undone-work"
				}
				first := ""
				if len(missing) > 0 {
					first = "missing " + missing[0]
				} else if len(extra) > 0 {
					first = "unexpected " + extra[0]
				}
				sigEv := first
				if i := strings.LastIndex(sigEv, "|"); i > 0 {
					sigEv = sigEv[:i]
				}
				rep.Violation(fmt.Sprintf("C08|%s|%s|%s|%s", kind, bodyName, mode, sigEv), fmt.Sprintf("%s: events differ from the reference: missing %d %v, unexpected %d %v", label, len(missing), head(missing, 4), len(extra), head(extra, 4)), replay)
			}
		counts:
			wantCommit := int64(0)
			if committed {
				wantCommit = 1
			}
			if n := atomic.LoadInt64(&w.commit); n != wantCommit {
				rep.Violation("C08|commit-action-count|"+bodyName+"|"+mode, fmt.Sprintf("%s: commit action ran %d times, expected %d", label, n, wantCommit), replay)
			}
			if mode != "batch" && mode != "batch-retry" {
				if n := atomic.LoadInt64(&w.txDone); n != wantCommit {
					rep.Violation("C08|tx-complete-count|"+bodyName+"|"+mode, fmt.Sprintf("%s: tx-complete listener ran %d times, expected %d", label, n, wantCommit), replay)
				}
			}
			if err == nil {
				reopen()
			}
			if bi == 3 && mode == "commit" && committed && len(e) > 0 {
				rep.Sample(map[string]interface{}{"base_state_history": st.History, "body": names, "first_expected_events": head(e, 3)})
			}
		}
		if rep.TooMany() {
			return
		}
	}
}

func head(l []string, n int) []string {
	if len(l) > n {
		return l[:n]
	}
	return l
}

func diffMultiset(want, got []string) (missing, extra []string) {
	cnt := map[string]int{}
	for _, w := range want {
		cnt[w]++
	}
	for _, g := range got {
		cnt[g]--
	}
	for k, v := range cnt {
		for ; v > 0; v-- {
			missing = append(missing, k)
		}
		for ; v < 0; v++ {
			extra = append(extra, k)
		}
	}
	sort.Strings(missing)
	sort.Strings(extra)
	return
}
