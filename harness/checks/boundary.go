package checks

import (
	"fmt"
	"math"
	"runtime"
	"strings"
	"sync"
	"time"

	"github.com/openziti/storage/boltz"
	"go.etcd.io/bbolt"
	rm "verif/refmodel"
	"verif/report"
)

// Boundary-value pass shared by C01 (comparisons), C02 (sort/paging) and C19 (object store):
// single scalar fields over domains made of the values at which an encoding or a comparison shortcut
// changes behaviour - extreme integers, denormal/huge floats, instants outside the range that fits
// in int64 nanoseconds and instants differing by one nanosecond, strings related by prefix/case/
// multi-byte characters - ALL assignments on three entities x every comparison against every
// boundary literal x every sort direction x a few pages.

var qBoundary = map[string][]rm.Val{
	"s":  {rm.Null, rm.Str(""), rm.Str("a"), rm.Str("B"), rm.Str("ab"), rm.Str("é"), rm.Str("aaaaaaaaaaaaaaaaa"), rm.Str("aaaaaaaaaaaaaaaab")},          // the last two: 17 bytes, equal in the first 16
	"i":  {rm.Null, rm.Int(-5), rm.Int(4), rm.Int(math.MinInt64), rm.Int(math.MaxInt64), rm.Int(math.MaxInt64 - 1), rm.Int(1 << 53), rm.Int(1<<53 + 1)}, // the last three: distinct integers that coincide as float64
	"f":  {rm.Null, rm.Flt(-4.5), rm.Flt(4.5), rm.Flt(5e-324), rm.Flt(math.MaxFloat64)},
	"nn": {rm.Null, rm.Int(-5), rm.Int(4), rm.Int(math.MinInt32), rm.Int(math.MaxInt32)}, // the int32-typed field (bolt store only)
	"t":  {rm.Null, rm.Time(time.Time{}) /* the zero instant is a value, not null */, rm.Time(time.Date(1020, 3, 4, 5, 6, 7, 0, time.UTC)), rm.Time(qT0), rm.Time(qT0.Add(time.Nanosecond)), rm.Time(time.Date(2321, 3, 4, 5, 6, 7, 0, time.UTC))},
}

type boundaryQuery struct {
	text   string
	pred   rm.Expr
	sortBy []rm.SortField
	page   pageSpec
}

func boundaryQueries(field string, filters, sorts bool) []boundaryQuery {
	var out []boundaryQuery
	if filters {
		for _, lit := range qBoundary[field][1:] {
			for _, op := range []string{"=", "!=", "<", "<=", ">", ">="} {
				e := rm.Cmp{L: lhs(field), Op: op, R: lit}
				out = append(out, boundaryQuery{text: e.Text(), pred: e})
			}
		}
	}
	if sorts {
		for _, desc := range []bool{false, true} {
			for _, pg := range []pageSpec{{}, {skip: i64p(1)}, {limit: i64p(2)}, {skip: i64p(1), limit: i64p(1)}} {
				sb := []rm.SortField{{Sym: field, Desc: desc}}
				text := sortText(sb)
				if pt := pg.text(); pt != "" {
					text += " " + pt
				}
				out = append(out, boundaryQuery{text: text, sortBy: sb, page: pg})
			}
		}
	}
	return out
}

// boundaryPass runs the pass for one property. filters/sorts select the query kinds; withObj adds
// the in-memory object store (C19: must agree with the reference and the bolt store).
func boundaryPass(rep *report.Report, prop string, filters, sorts, withObj bool) {
	var wg sync.WaitGroup
	sem := make(chan struct{}, runtime.NumCPU())
	fields := []string{"s", "i", "f", "t"}
	if !withObj {
		fields = append(fields, "nn")
	}
	for _, field := range fields {
		field := field
		wg.Add(1)
		sem <- struct{}{}
		go func() {
			defer func() { <-sem; wg.Done() }()
			w := newQWorld()
			w.open()
			defer w.close()
			var objs []*c19Obj
			ost := newObjStore(&objs)
			dom := qBoundary[field]
			queries := boundaryQueries(field, filters, sorts)
			ids := []string{"e1", "e2", "e3"}
			idx := make([]int, len(ids))
			for !rep.TooMany() {
				ds := newQDS()
				objs = objs[:0]
				var lb strings.Builder
				for ei, id := range ids {
					e := &rm.Ent{Id: id, F: map[string]rm.Val{field: dom[idx[ei]]}, Sets: map[string][]string{}, Fk: map[string]*string{}, Tags: map[string]rm.Val{}}
					fmt.Fprintf(&lb, "%s{%s=%s} ", id, field, e.F[field])
					ds.Stores["people"].Ents[id] = e
					objs = append(objs, entToObj(e))
				}
				label := lb.String()
				label0 := label
				run := func(tx *bbolt.Tx, mode string) {
					label := label0 + "[" + mode + "] "
					for _, q := range queries {
						var matching []string
						for _, id := range ids {
							if q.pred == nil || ds.Eval("people", id, q.pred) == rm.True {
								matching = append(matching, id)
							}
						}
						skip, limit := q.page.ref()
						want, total := ds.SortPage("people", matching, q.sortBy, skip, limit)
						rep.Count("evaluations", 1)
						rep.Count("compared_pairs", 1)
						rep.Count("boundary_value_pairs", 1)
						var bIds []string
						var bCount int64
						var bErr error
						var pan interface{}
						func() {
							defer func() { pan = recover() }()
							bIds, bCount, bErr = w.people.QueryIds(tx, q.text)
						}()
						if !withObj {
							if pan != nil || bErr != nil {
								rep.Violation(prop+"|boundary-rejected|"+q.text, fmt.Sprintf("QueryIds(%q) on %s: err=%v panic=%v", q.text, label, bErr, pan), map[string]interface{}{"query": q.text, "dataset": label})
							} else if strings.Join(bIds, ",") != strings.Join(want, ",") || bCount != total {
								rep.Violation(prop+"|boundary-wrong-result|"+q.text, fmt.Sprintf("QueryIds(%q) on %s = %v count=%d; reference %v count=%d", q.text, label, bIds, bCount, want, total), map[string]interface{}{"query": q.text, "dataset": label})
							}
							continue
						}
						var got []string
						var count int64
						var err error
						var opan interface{}
						func() {
							defer func() { opan = recover() }()
							var res []*c19Obj
							res, count, err = ost.QueryEntities(q.text)
							for _, o := range res {
								got = append(got, o.id)
							}
						}()
						switch {
						case opan != nil || err != nil:
							rep.Violation(prop+"|object-store-error|"+q.text, fmt.Sprintf("ObjectStore.QueryEntities(%q) on %s: err=%v panic=%v", q.text, label, err, opan), map[string]interface{}{"query": q.text, "dataset": label})
						case strings.Join(got, ",") != strings.Join(want, ",") || count != total:
							rep.Violation(prop+"|object-store-differs-from-reference|"+q.text, fmt.Sprintf("ObjectStore.QueryEntities(%q) on %s = %v count=%d; reference %v count=%d; bolt store %v count=%d err=%v", q.text, label, got, count, want, total, bIds, bCount, bErr), map[string]interface{}{"query": q.text, "dataset": label})
						case pan != nil || bErr != nil || strings.Join(got, ",") != strings.Join(bIds, ",") || count != bCount:
							rep.Violation(prop+"|object-store-differs-from-bolt|"+q.text, fmt.Sprintf("ObjectStore.QueryEntities(%q) on %s = %v count=%d; bolt store %v count=%d err=%v panic=%v", q.text, label, got, count, bIds, bCount, bErr, pan), map[string]interface{}{"query": q.text, "dataset": label})
						}
					}
				}
				_ = w.db.Update(nil, func(ctx boltz.MutateContext) error {
					if err := w.materialise(ctx, ds); err != nil {
						rep.Violation(prop+"|materialise|"+label, err.Error(), nil)
						return errSkip
					}
					run(ctx.Tx(), "uncommitted")
					return errSkip
				})
				if err := w.committed(ds, func(tx *bbolt.Tx) { run(tx, "committed") }); err != nil {
					rep.Violation(prop+"|materialise-committed|"+label, err.Error(), nil)
				}
				k := len(idx) - 1
				for k >= 0 {
					idx[k]++
					if idx[k] < len(dom) {
						break
					}
					idx[k] = 0
					k--
				}
				if k < 0 {
					break
				}
			}
		}()
	}
	wg.Wait()
}
