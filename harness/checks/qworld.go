package checks

import (
	"fmt"
	"sort"
	"strings"
	"time"

	"github.com/openziti/foundation/v2/errorz"
	"github.com/openziti/storage/ast"
	"github.com/openziti/storage/boltz"
	"go.etcd.io/bbolt"
	"verif/explore"
	rm "verif/refmodel"
	"verif/world"
)

// qWorld is the query schema used by C01/C02/C20: people (every scalar type, string set, fk with
// back-reference set, link set, tag map) and places.
type qWorld struct {
	people, places *world.Store
	lp, ll         boltz.LinkCollection
	rolesIdx       boltz.SetReadIndex
	dir            string
	db             *boltz.DbImpl
}

var (
	qT0   = time.Date(2020, 1, 2, 3, 4, 5, 0, time.UTC)
	qT1   = time.Date(2021, 6, 7, 8, 9, 10, 0, time.UTC)
	qTmid = time.Date(2020, 9, 9, 9, 9, 9, 0, time.UTC)
)

var qScalarKinds = map[string]rm.Kind{"s": rm.KStr, "i": rm.KInt, "nn": rm.KInt, "f": rm.KFlt, "b": rm.KBool, "t": rm.KTime}

func newQWorld() *qWorld {
	w := &qWorld{}
	w.places = world.NewStore(&world.Spec{EntityType: "places", BasePath: []string{"root"}, Fields: []world.Field{{Name: "name", Kind: world.KString}}})
	w.people = world.NewStore(&world.Spec{EntityType: "people", BasePath: []string{"root"}, Fields: []world.Field{
		{Name: "s", Kind: world.KStringP}, {Name: "i", Kind: world.KInt64P}, {Name: "nn", Kind: world.KInt32P},
		{Name: "f", Kind: world.KFloat64P}, {Name: "b", Kind: world.KBoolP}, {Name: "t", Kind: world.KTimeP},
		{Name: "roles", Kind: world.KStringList}, {Name: "boss", Kind: world.KStringP}, {Name: "tags", Kind: world.KMap}}})
	w.places.AddIdSymbol("id", ast.NodeTypeString)
	w.places.AddSymbol("name", ast.NodeTypeString)
	p := w.people
	p.AddIdSymbol("id", ast.NodeTypeString)
	p.AddSymbol("s", ast.NodeTypeString)
	p.AddSymbol("i", ast.NodeTypeInt64)
	p.AddSymbol("nn", ast.NodeTypeInt64)
	p.AddSymbol("f", ast.NodeTypeFloat64)
	p.AddSymbol("b", ast.NodeTypeBool)
	p.AddSymbol("t", ast.NodeTypeDatetime)
	// symbols whose name differs from the key they are stored under
	p.AddSymbolWithKey("sk", ast.NodeTypeString, "s")
	roles := p.AddSetSymbol("roles", ast.NodeTypeString)
	w.rolesIdx = p.AddSetIndex(roles)
	boss := p.AddFkSymbol("boss", p)
	p.AddFkSymbolWithKey("chief", "boss", p)
	reports := p.AddFkSetSymbol("reports", p)
	p.AddNullableFkIndex(boss, reports)
	symPL := p.AddFkSetSymbol("places", w.places)
	symLP := w.places.AddFkSetSymbol("people", p)
	w.lp = p.AddLinkCollection(symPL, symLP)
	w.ll = w.places.AddLinkCollection(symLP, symPL)
	p.AddMapSymbol("tags", ast.NodeTypeAnyType, "tags")
	return w
}

func (w *qWorld) open() {
	w.dir = explore.TmpDir("q")
	db, err := boltz.Open(w.dir+"/q.db", "root")
	if err != nil {
		panic(err)
	}
	w.db = db
	err = db.Update(nil, func(ctx boltz.MutateContext) error {
		h := &errorz.ErrorHolderImpl{}
		w.people.InitializeIndexes(ctx.Tx(), h)
		w.places.InitializeIndexes(ctx.Tx(), h)
		return h.GetError()
	})
	if err != nil {
		panic(err)
	}
}

func (w *qWorld) close() {
	if w.db != nil {
		_ = w.db.Close()
	}
	removeAll(w.dir)
}

// newQDS returns an empty reference dataset with the schema of qWorld.
func newQDS() *rm.DS {
	people := &rm.Store{Name: "people", Ents: map[string]*rm.Ent{},
		Scalars: map[string]rm.Kind{"s": rm.KStr, "sk": rm.KStr, "i": rm.KInt, "nn": rm.KInt, "f": rm.KFlt, "b": rm.KBool, "t": rm.KTime},
		SetSyms: map[string]string{"roles": "", "places": "places"},
		FkSyms:  map[string]string{"boss": "people", "chief": "people"},
		BackRef: map[string][2]string{"reports": {"people", "boss"}},
		MapSyms: map[string]bool{"tags": true}}
	places := &rm.Store{Name: "places", Ents: map[string]*rm.Ent{},
		Scalars: map[string]rm.Kind{"name": rm.KStr},
		SetSyms: map[string]string{"people": "people"},
		FkSyms:  map[string]string{}, BackRef: map[string][2]string{}, MapSyms: map[string]bool{}}
	return &rm.DS{Stores: map[string]*rm.Store{"people": people, "places": places}}
}

func valToGo(v rm.Val, int32Field bool) interface{} {
	switch v.K {
	case rm.KStr:
		return v.S
	case rm.KInt:
		if int32Field {
			return int32(v.I)
		}
		return v.I
	case rm.KFlt:
		return v.F
	case rm.KBool:
		return v.B
	case rm.KTime:
		return v.T
	}
	return nil
}

// materialise writes the reference dataset into the database through the store API (inside ctx's transaction).
func (w *qWorld) materialise(ctx boltz.MutateContext, ds *rm.DS) error {
	places := ds.Stores["places"]
	for _, id := range places.Ids() {
		e := places.Ents[id]
		if err := w.places.Create(ctx, world.NewRec("places", id).With("name", e.F["name"].S)); err != nil {
			return fmt.Errorf("create place %s: %w", id, err)
		}
	}
	people := ds.Stores["people"]
	mk := func(e *rm.Ent, withBoss bool) *world.Rec {
		r := world.NewRec("people", e.Id)
		for _, f := range []string{"s", "i", "nn", "f", "b", "t"} {
			r.With(f, valToGo(e.F[f], f == "nn"))
		}
		r.With("roles", append([]string{}, e.Sets["roles"]...))
		r.With("boss", nil)
		if withBoss && e.Fk["boss"] != nil {
			r.With("boss", *e.Fk["boss"])
		}
		tags := map[string]interface{}{}
		for k, v := range e.Tags {
			if !v.IsNull() {
				tags[k] = valToGo(v, k == "h")
			}
		}
		r.With("tags", tags)
		return r
	}
	for _, id := range people.Ids() {
		if err := w.people.Create(ctx, mk(people.Ents[id], false)); err != nil {
			return fmt.Errorf("create person %s: %w", id, err)
		}
	}
	for _, id := range people.Ids() {
		e := people.Ents[id]
		if e.Fk["boss"] != nil {
			if err := w.people.Update(ctx, mk(e, true), boltz.MapFieldChecker{"boss": struct{}{}}); err != nil {
				return fmt.Errorf("set boss of %s: %w", id, err)
			}
		}
		if len(e.Sets["places"]) > 0 {
			if err := w.lp.AddLinks(ctx.Tx(), id, e.Sets["places"]...); err != nil {
				return fmt.Errorf("link %s: %w", id, err)
			}
		}
	}
	return nil
}

// committed writes the dataset in one committed transaction, runs fn in a read transaction on the
// committed pages, and empties the database again (raw bucket delete + index re-initialisation).
func (w *qWorld) committed(ds *rm.DS, fn func(tx *bbolt.Tx)) error {
	if err := w.db.Update(nil, func(ctx boltz.MutateContext) error { return w.materialise(ctx, ds) }); err != nil {
		return err
	}
	_ = w.db.View(func(tx *bbolt.Tx) error { fn(tx); return nil })
	return w.db.Update(nil, func(ctx boltz.MutateContext) error {
		if err := ctx.Tx().DeleteBucket([]byte("root")); err != nil {
			return err
		}
		h := &errorz.ErrorHolderImpl{}
		w.people.InitializeIndexes(ctx.Tx(), h)
		w.places.InitializeIndexes(ctx.Tx(), h)
		return h.GetError()
	})
}

// ---------------------------------------------------------------------------------------------
// dataset families: all assignments of a set of fields over tiny domains

var qDomains = map[string][]rm.Val{
	"s":   {rm.Null, rm.Str(""), rm.Str("a"), rm.Str("B"), rm.Str("ab")},
	"i":   {rm.Null, rm.Int(4), rm.Int(5), rm.Int(6)},
	"nn":  {rm.Null, rm.Int(4), rm.Int(5), rm.Int(-4)}, // stored as int32: a negative value must stay negative when widened
	"f":   {rm.Null, rm.Flt(4.5), rm.Flt(5.0)},
	"b":   {rm.Null, rm.Bool(true), rm.Bool(false)},
	"t":   {rm.Null, rm.Time(qT0), rm.Time(qT1)},
	"tag": {rm.Null, rm.Str("a"), rm.Str("5"), rm.Int(5), rm.Flt(4.5), rm.Bool(true), rm.Bool(false), rm.Int(-4)},
}

var qRoleSets = [][]string{nil, {"a"}, {"b"}, {"x"}, {"a", "b"}, {"a", "x"}, {"b", "x"}, {"a", "b", "x"}}
var qPlaceSets = [][]string{nil, {"l1"}, {"l2"}, {"l1", "l2"}}

// fieldChoices returns the number of choices of a family field for one entity.
func fieldChoices(field string, ids []string) int {
	switch field {
	case "roles":
		return len(qRoleSets)
	case "places":
		return len(qPlaceSets)
	case "boss":
		return len(ids) + 2
	}
	return len(qDomains[field])
}

func applyChoice(e *rm.Ent, field string, c int, ids []string) {
	switch field {
	case "roles":
		e.Sets["roles"] = qRoleSets[c]
	case "places":
		e.Sets["places"] = qPlaceSets[c]
	case "boss":
		if c == 0 {
			e.Fk["boss"] = nil
		} else if c == len(ids)+1 {
			empty := "" // a reference that is the empty string, not null: it leads nowhere
			e.Fk["boss"] = &empty
		} else {
			b := ids[c-1]
			e.Fk["boss"] = &b
		}
		e.Fk["chief"] = e.Fk["boss"] // the symbol `chief` reads the key `boss`
	case "tag":
		e.Tags["k"] = qDomains["tag"][c]
		e.Tags["h"] = qDomains["tag"][c] // same value; integers under this key are stored 32 bits wide
	default:
		e.F[field] = qDomains[field][c]
		if field == "s" {
			e.F["sk"] = e.F["s"] // the symbol `sk` reads the key `s`
		}
	}
}

// datasets enumerates all assignments of fields over ids. The callback gets a fresh DS each time.
func qDatasets(fields []string, ids []string, f func(ds *rm.DS, label string)) {
	n := len(ids) * len(fields)
	idx := make([]int, n)
	for {
		ds := newQDS()
		ds.Stores["places"].Ents["l1"] = &rm.Ent{Id: "l1", F: map[string]rm.Val{"name": rm.Str("x")}, Sets: map[string][]string{}, Fk: map[string]*string{}}
		ds.Stores["places"].Ents["l2"] = &rm.Ent{Id: "l2", F: map[string]rm.Val{"name": rm.Str("y")}, Sets: map[string][]string{}, Fk: map[string]*string{}}
		var lb strings.Builder
		for ei, id := range ids {
			e := &rm.Ent{Id: id, F: map[string]rm.Val{}, Sets: map[string][]string{}, Fk: map[string]*string{}, Tags: map[string]rm.Val{}}
			for fi, fld := range fields {
				c := idx[ei*len(fields)+fi]
				applyChoice(e, fld, c, ids)
			}
			ds.Stores["people"].Ents[id] = e
			fmt.Fprintf(&lb, "%s{", id)
			for _, fld := range fields {
				switch fld {
				case "roles":
					fmt.Fprintf(&lb, "roles=%v ", e.Sets["roles"])
				case "places":
					fmt.Fprintf(&lb, "places=%v ", e.Sets["places"])
				case "boss":
					if e.Fk["boss"] == nil {
						lb.WriteString("boss=null ")
					} else {
						fmt.Fprintf(&lb, "boss=%s ", *e.Fk["boss"])
					}
				case "tag":
					fmt.Fprintf(&lb, "tags.k=%s ", e.Tags["k"])
				default:
					fmt.Fprintf(&lb, "%s=%s ", fld, e.F[fld])
				}
			}
			lb.WriteString("} ")
		}
		// reverse side of links in the reference dataset
		for _, id := range ids {
			for _, l := range ds.Stores["people"].Ents[id].Sets["places"] {
				pl := ds.Stores["places"].Ents[l]
				pl.Sets["people"] = append(pl.Sets["people"], id)
			}
		}
		f(ds, lb.String())
		// increment
		k := n - 1
		for k >= 0 {
			fld := fields[k%len(fields)]
			idx[k]++
			if idx[k] < fieldChoices(fld, ids) {
				break
			}
			idx[k] = 0
			k--
		}
		if k < 0 {
			return
		}
	}
}

func familyKey(fields []string) string {
	c := append([]string{}, fields...)
	sort.Strings(c)
	return strings.Join(c, "+")
}

// symFields maps a symbol to the dataset fields it depends on.
func symFields(sym string) []string {
	var out []string
	for _, part := range strings.Split(sym, ".") {
		switch part {
		case "s", "i", "nn", "f", "b", "t", "roles", "boss", "places":
			out = append(out, part)
		case "reports", "chief":
			out = append(out, "boss")
		case "sk":
			out = append(out, "s")
		case "tags":
			out = append(out, "tag")
		case "people":
			out = append(out, "places")
		}
	}
	return out
}

func exprFields(e rm.Expr) []string {
	set := map[string]bool{}
	for _, s := range rm.Symbols(e) {
		for _, f := range symFields(s) {
			set[f] = true
		}
	}
	var out []string
	for f := range set {
		out = append(out, f)
	}
	sort.Strings(out)
	return out
}
