package checks

import (
	"context"
	"errors"
	"fmt"
	"os"
	"runtime"
	"strings"
	"sync"
	"sync/atomic"

	"github.com/openziti/storage/boltz"
	"go.etcd.io/bbolt"
	"verif/dump"
	"verif/explore"
	"verif/report"
	"verif/vfault"
	"verif/vsync"
	"verif/world"
)

// ---------------------------------------------------------------------------------------------
// C07 — transactions are all-or-nothing and every failure reaches the caller.

var errBoom = errors.New("verif: caller error")
var errVeto = errors.New("verif: constraint veto")

// c07World is a kitchen-sink world with observation hooks: listeners, a vetoing constraint per
// store, commit actions and tx-complete listeners. One per worker.
type c07World struct {
	k            *kitchen
	listenerHits int64
	postCommits  int64
	commitActs   int64
	txCompletes  int64
	vetoStore    string
	vetoKind     boltz.EntityEventType
	vetoFired    bool
	vetoErr      error  // what a vetoing constraint / refusing strategy returns
	stratStore   string // child store whose strategy refuses ...
	stratOp      string // ... "update" or "delete" arriving through the parent
}

type c07Constraint struct {
	w     *c07World
	store string
}

func (c *c07Constraint) ProcessPreCommit(state boltz.UntypedEntityChangeState) error {
	if c.w.vetoStore == c.store && c.w.vetoKind == state.GetChangeType() {
		c.w.vetoFired = true
		return c.w.vetoErr
	}
	return nil
}

func (c *c07Constraint) ProcessPostCommit(boltz.UntypedEntityChangeState) {
	atomic.AddInt64(&c.w.postCommits, 1)
}

var c07StoreNames = []string{"people", "mgr", "prof", "orgs", "places", "pets"}

func newC07World() *c07World {
	w := &c07World{}
	w.k = newKitchen("tx", kFeat{orgs: true, places: true, pets: true, rc: true, maxCount: 2})
	stores := map[string]*world.Store{"people": w.k.people, "mgr": w.k.mgr, "prof": w.k.prof, "orgs": w.k.orgs, "places": w.k.places, "pets": w.k.pets}
	for _, name := range c07StoreNames {
		s := stores[name]
		s.AddUntypedEntityConstraint(&c07Constraint{w: w, store: name})
		s.AddListener(func(boltz.Entity) { atomic.AddInt64(&w.listenerHits, 1) }, boltz.EntityCreated, boltz.EntityUpdated, boltz.EntityDeleted)
		s.AddListener(func(boltz.Entity) { atomic.AddInt64(&w.listenerHits, 1) }, boltz.EntityCreatedAsync, boltz.EntityUpdatedAsync, boltz.EntityDeletedAsync)
		s.AddEntityIdListener(func(string) { atomic.AddInt64(&w.listenerHits, 1) }, boltz.EntityDeleted)
	}
	// a child-store strategy may refuse an update or delete arriving through the parent store
	for _, name := range []string{"mgr", "prof"} {
		name := name
		stores[name].StrategyVeto = func(op string, id string) error {
			if w.stratStore == name && w.stratOp == op {
				w.vetoFired = true
				return w.vetoErr
			}
			return nil
		}
	}
	return w
}

func (w *c07World) resetCounters() {
	atomic.StoreInt64(&w.listenerHits, 0)
	atomic.StoreInt64(&w.postCommits, 0)
	atomic.StoreInt64(&w.commitActs, 0)
	atomic.StoreInt64(&w.txCompletes, 0)
	w.vetoFired = false
}

type c07Fault struct {
	kind      string // none, caller, precommit, veto, storage
	callerAt  int    // caller error returned before op index callerAt (len(body) = after the last op)
	vetoStore string
	vetoKind  boltz.EntityEventType
	errType   string // "" = an untyped error; "notfound" = the failure is reported with the library's own not-found error type
	stratOp   string // kind "strategy": the child store vetoStore refuses this operation in its child-store strategy
	writeNo   int
	pre       string // precommit: the registered pre-commit actions in order, F = fails, S = succeeds
}

func (f c07Fault) String() string {
	if f.errType != "" {
		g := f
		g.errType = ""
		return g.String() + "[error type " + f.errType + "]"
	}
	switch f.kind {
	case "caller":
		return fmt.Sprintf("caller-error-before-op-%d", f.callerAt)
	case "strategy":
		return fmt.Sprintf("strategy-refusal(%s,%s)", f.vetoStore, f.stratOp)
	case "veto":
		return fmt.Sprintf("veto(%s,%s)", f.vetoStore, map[boltz.EntityEventType]string{boltz.EntityCreated: "create", boltz.EntityUpdated: "update", boltz.EntityDeleted: "delete"}[f.vetoKind])
	case "storage":
		return fmt.Sprintf("storage-write-%d-fails", f.writeNo)
	case "precommit":
		return "precommit[" + f.pre + "]"
	}
	return f.kind
}

// extra operations that fail at the index-write stage, after the entity was persisted
func (w *c07World) extraOps() []explore.Op {
	k := w.k
	huge := strings.Repeat("N", 40000)
	return []explore.Op{
		{Name: "create@people(#p2,name=<40000 bytes>) [key too large for the unique index]",
			Do: func(ctx boltz.MutateContext) error {
				return k.people.Create(ctx, k.personRec("#p2", huge, nil, nil, nil, nil))
			},
			Apply: func(m explore.Model) []string { return []string{"unusable-key", "exists"} }},
		{Name: "create@people(#p2,name=C,roles=[\"\"]) [empty set-index key]",
			Do: func(ctx boltz.MutateContext) error {
				return k.people.Create(ctx, k.personRec("#p2", "C", []string{""}, nil, nil, nil))
			},
			Apply: func(m explore.Model) []string { return []string{"unusable-key", "exists"} }},
		// a set element longer than a bolt key may be: the failure is raised while the shared (parent) fields are
		// persisted - directly, and through the persist context a child store derives for its parent part
		{Name: "create@people(#p2,name=C,roles=[<40000 bytes>]) [element too large to be stored]",
			Do: func(ctx boltz.MutateContext) error {
				return k.people.Create(ctx, k.personRec("#p2", "C", []string{huge}, nil, nil, nil))
			},
			Apply: func(m explore.Model) []string { return []string{"unusable-key", "exists"} }},
		{Name: "create@mgr(#p2,name=C,roles=[<40000 bytes>]) [element too large, through the plain child store]",
			Do: func(ctx boltz.MutateContext) error {
				tr := true
				return k.mgr.Create(ctx, k.personRec("#p2", "C", []string{huge}, nil, &tr, nil))
			},
			Apply: func(m explore.Model) []string { return []string{"unusable-key", "exists"} }},
		{Name: "create@prof(#p2,name=C,roles=[<40000 bytes>]) [element too large, through the extended child store]",
			Do: func(ctx boltz.MutateContext) error {
				nick := "n"
				return k.prof.Create(ctx, k.personRec("#p2", "C", []string{huge}, nil, nil, &nick))
			},
			Apply: func(m explore.Model) []string { return []string{"unusable-key", "exists"} }},
		{Name: "update@mgr(#p1,name=A,roles=[<40000 bytes>]) [element too large, through the plain child store]",
			Do: func(ctx boltz.MutateContext) error {
				tr := true
				return k.mgr.Update(ctx, k.personRec("#p1", "A", []string{huge}, nil, &tr, nil), nil)
			},
			Apply: func(m explore.Model) []string { return []string{"unusable-key", "notfound", "dup"} }},
		{Name: "update@prof(#p1,name=A,roles=[<40000 bytes>]) [element too large, through the extended child store]",
			Do: func(ctx boltz.MutateContext) error {
				nick := "n"
				return k.prof.Update(ctx, k.personRec("#p1", "A", []string{huge}, nil, nil, &nick), nil)
			},
			Apply: func(m explore.Model) []string { return []string{"unusable-key", "notfound", "dup"} }},
		// rejected by input validation before anything is written
		{Name: "create@people(<blank id>)",
			Do: func(ctx boltz.MutateContext) error {
				return k.people.Create(ctx, k.personRec("", "C", nil, nil, nil, nil))
			},
			Apply: func(m explore.Model) []string { return []string{"invalid"} }},
		{Name: "create@people(<entity of another store's type>)",
			Do: func(ctx boltz.MutateContext) error {
				return k.people.Create(ctx, world.NewRec("orgs", "#p2").With("label", "L"))
			},
			Apply: func(m explore.Model) []string { return []string{"invalid"} }},
		{Name: "create@people(<nil entity>)",
			Do:    func(ctx boltz.MutateContext) error { var r *world.Rec; return k.people.Create(ctx, r) },
			Apply: func(m explore.Model) []string { return []string{"invalid"} }},
		{Name: "update@people(<blank id>)",
			Do: func(ctx boltz.MutateContext) error {
				return k.people.Update(ctx, k.personRec("", "C", nil, nil, nil, nil), nil)
			},
			Apply: func(m explore.Model) []string { return []string{"invalid"} }},
		{Name: "update@mgr(<nil entity>)",
			Do:    func(ctx boltz.MutateContext) error { var r *world.Rec; return k.mgr.Update(ctx, r, nil) },
			Apply: func(m explore.Model) []string { return []string{"invalid"} }},
		{Name: "people.rc.SetLinkCount(#p1,#l1,2)",
			Do: func(ctx boltz.MutateContext) error {
				_, _, err := k.rp.SetLinkCount(ctx.Tx(), []byte("#p1"), []byte("#l1"), 2)
				return err
			},
			Apply: func(mm explore.Model) []string {
				m := mm.(*kModel)
				if _, ok := m.people["#p1"]; !ok || !m.places["#l1"] {
					return []string{"notfound"}
				}
				m.rc[[2]string{"#p1", "#l1"}] = 2
				return []string{"ok"}
			}},
		{Name: "places.rc.SetLinkCount(#l1,#p1,0)",
			Do: func(ctx boltz.MutateContext) error {
				_, _, err := k.rl.SetLinkCount(ctx.Tx(), []byte("#l1"), []byte("#p1"), 0)
				return err
			},
			Apply: func(mm explore.Model) []string {
				m := mm.(*kModel)
				if _, ok := m.people["#p1"]; !ok || !m.places["#l1"] {
					return []string{"notfound"}
				}
				delete(m.rc, [2]string{"#p1", "#l1"})
				return []string{"ok"}
			}},
		{Name: "people.DeleteWhere(name != \"zz\") [several deletes in one call]",
			Do: func(ctx boltz.MutateContext) error { return k.people.DeleteWhere(ctx, `name != "zz"`) },
			Apply: func(mm explore.Model) []string {
				m := mm.(*kModel)
				for id := range m.people {
					m.deletePerson(id)
				}
				return []string{"ok"}
			}},
	}
}

func C07(tier string) int {
	rep := report.New("C07", tier, "fault_enumeration")
	thorough := tier != "quick"
	rep.Assume("goroutines started by the library are joined through the tracked-spawn overlay, so 'no listener ran' is decided, not timed")
	rep.Set("rule", "base states (BFS depth <= 1 quick / 2 thorough over the kitchen-sink schema) x transaction bodies (every single operation; pairs over a core alphabet) x every failure kind (caller error at every position, rejected operation, unusable key, constraint veto per store and change type, failing pre-commit action, storage write k of N for every k) x routes Update / nested Update / Batch; oracle: error at store call and at Db.Update, byte-identical database, zero listener / commit-action / tx-complete invocations")
	c07StickyErrors(rep)
	c07RejectedValues(rep, thorough)

	// base states from a short exploration (files kept)
	k0 := newKitchen("tx base states", kFeat{orgs: true, places: true, pets: true, rc: true, maxCount: 2})
	// quick: every body on the states of depth <= 1; on the states of depth 2 only the bodies made of one delete
	// (a delete that a constraint refuses needs a referrer, i.e. a history of two operations)
	depth := 2
	fullDepth := 1
	if thorough {
		fullDepth = 2
	}
	brep := report.New("C07-base", tier, "fault_enumeration")
	ex := &explore.Explorer{Sc: k0, Cfg: explore.Config{Programs: explore.SingleOps(len(k0.Ops())), MaxDepth: depth, KeepFiles: true}, Rep: brep}
	ex.Run()
	defer os.RemoveAll(ex.Dir)
	if brep.NumViolations() > 0 {
		rep.Violation("C07|base-exploration", "the base-state exploration itself found violations (see C06/C15)", nil)
	}
	states := ex.States
	rep.Count("base_states", int64(len(states)))

	// fault points active?
	faultsActive := func() bool {
		dir := explore.TmpDir("c07probe")
		defer os.RemoveAll(dir)
		db, err := bbolt.Open(dir+"/p.db", 0o600, nil)
		if err != nil {
			return false
		}
		defer db.Close()
		active := false
		_ = db.Update(func(tx *bbolt.Tx) error {
			plan := &vfault.Plan{FailAt: 1}
			vfault.Attach(tx, plan)
			defer vfault.Detach(tx)
			_, err := tx.CreateBucketIfNotExists([]byte("x"))
			active = errors.Is(err, vfault.ErrInjected)
			return errSkip
		})
		return active
	}()
	rep.Set("storage_fault_points_active", faultsActive)

	var wg sync.WaitGroup
	var next int64 = -1
	for wk := 0; wk < runtime.NumCPU(); wk++ {
		wg.Add(1)
		go func() {
			defer wg.Done()
			w := newC07World()
			ops := append(append([]explore.Op{}, w.k.Ops()...), w.extraOps()...)
			// core alphabet for two-operation bodies
			var core []int
			for i, o := range ops {
				n := o.Name
				switch {
				case strings.HasPrefix(n, "createOrg"), strings.HasPrefix(n, "createPlace"), strings.HasPrefix(n, "deleteOrg"),
					strings.HasPrefix(n, "create@people(#p1,name=A,roles=[r],org=#o1)"), strings.HasPrefix(n, "create@mgr(#p2,name=B,roles=[],org=null)"),
					strings.HasPrefix(n, "create@prof(#p2,name=A,roles=[r],org=null)"), strings.HasPrefix(n, "update@people(#p1,name=B,roles=[],org=null)"),
					strings.HasPrefix(n, "update@mgr(#p2,name=A,roles=[r],org=null)"), strings.HasPrefix(n, "delete@people(#p1)"), strings.HasPrefix(n, "delete@mgr(#p2)"),
					strings.HasPrefix(n, "delete@prof(#p1)"), strings.HasPrefix(n, "createPet(#t1,owner=#p1)"), strings.HasPrefix(n, "people.AddLinks(#p1"),
					strings.HasPrefix(n, "people.rc.Increment(#p1"), strings.Contains(n, "DeleteWhere"), strings.Contains(n, "40000 bytes"), strings.Contains(n, "SetLinkCount"):
					core = append(core, i)
				}
			}
			var bodies [][]int
			for i := range ops {
				bodies = append(bodies, []int{i})
			}
			for _, a := range core {
				for _, b := range core {
					bodies = append(bodies, []int{a, b})
				}
			}
			if thorough {
				for _, a := range core[:6] {
					for _, b := range core {
						for _, c := range core[6:] {
							if (a+b+c)%5 == 0 {
								bodies = append(bodies, []int{a, b, c})
							}
						}
					}
				}
			}
			var deleteBodies [][]int
			for i, o := range ops {
				if strings.HasPrefix(o.Name, "delete") {
					deleteBodies = append(deleteBodies, []int{i})
				}
			}
			for {
				i := int(atomic.AddInt64(&next, 1))
				if i >= len(states) || rep.TooMany() {
					return
				}
				sb := bodies
				if states[i].Depth > fullDepth {
					sb = deleteBodies
				}
				c07State(rep, w, ops, sb, states[i], faultsActive, thorough)
			}
		}()
	}
	wg.Wait()
	// rejections raised BEFORE the entity strategy runs (system-entity constraint, also through a child store):
	// every rejected operation must fail at the store call and leave the database unchanged
	ssc := newSysScenario()
	sysEx := runE1(rep, &renamed{Scenario: ssc, name: "S_sys+child (rejections before persist)"}, explore.Config{Programs: sysQuickPrograms(ssc)})
	rep.Count("evaluations", int64(len(sysEx.States))*int64(len(sysQuickPrograms(ssc))))
	rep.Set("evaluations", rep.Get("evaluations"))
	rep.Set("distinct_nontrivial", int(rep.Get("failure_cases")))
	rep.Set("tracked_spawns", vsync.SpawnCount())
	return rep.Finish()
}

type c07Db struct {
	w    *c07World
	src  string
	path string
	db   *boltz.DbImpl
}

func (h *c07Db) open() {
	if err := explore.CopyFile(h.src, h.path); err != nil {
		panic(err)
	}
	db, err := boltz.Open(h.path, "root")
	if err != nil {
		panic(err)
	}
	db.AddTxCompleteListener(func(boltz.MutateContext) { atomic.AddInt64(&h.w.txCompletes, 1) })
	h.db = db
}

func (h *c07Db) reset() {
	_ = h.db.Close()
	h.open()
}

func c07State(rep *report.Report, w *c07World, ops []explore.Op, bodies [][]int, st *explore.State, faultsActive, thorough bool) {
	h := &c07Db{w: w, src: st.Path, path: st.Path + ".work"}
	h.open()
	defer func() { _ = h.db.Close(); _ = os.Remove(h.path) }()
	var pre *dump.Tree
	_ = h.db.View(func(tx *bbolt.Tx) error { pre = dump.Tx(tx); return nil })
	preHash := pre.Hash()

	for bi, body := range bodies {
		// model prediction: index of the first rejected op (or -1)
		m := st.Model.Clone()
		reject := -1
		skip := false
		for i, o := range body {
			classes := ops[o].Apply(m)
			if len(classes) == 1 && classes[0] == "skip" {
				skip = true
				break
			}
			if !(len(classes) == 1 && classes[0] == "ok") {
				reject = i
				break
			}
		}
		if skip {
			continue
		}
		var faults []c07Fault
		// pre-commit actions: a failing one alone, before, after and between succeeding ones
		faults = append(faults, c07Fault{kind: "none"}, c07Fault{kind: "precommit", pre: "F"}, c07Fault{kind: "precommit", pre: "FS"}, c07Fault{kind: "precommit", pre: "SF"}, c07Fault{kind: "precommit", pre: "SFS"},
			// Q = a succeeding action that itself registers another succeeding action; f = a failing action that first registers a succeeding one
			c07Fault{kind: "precommit", pre: "QF"}, c07Fault{kind: "precommit", pre: "f"}, c07Fault{kind: "precommit", pre: "fS"},
			// o... = registered on the mutate context before Db.Update / Db.Batch is called
			c07Fault{kind: "precommit", pre: "oF"}, c07Fault{kind: "precommit", pre: "oSF"})
		for j := 0; j <= len(body); j++ {
			faults = append(faults, c07Fault{kind: "caller", callerAt: j})
		}
		for _, sn := range c07StoreNames {
			for _, kind := range []boltz.EntityEventType{boltz.EntityCreated, boltz.EntityUpdated, boltz.EntityDeleted} {
				faults = append(faults, c07Fault{kind: "veto", vetoStore: sn, vetoKind: kind})
			}
		}
		for _, sn := range []string{"mgr", "prof"} {
			for _, op := range []string{"update", "delete"} {
				faults = append(faults, c07Fault{kind: "strategy", vetoStore: sn, stratOp: op})
			}
		}
		// the same failures reported with the library's own not-found error type (which some call paths treat specially);
		// not for bodies with the harness's own "delete, ignoring not-found" operation, which swallows such an error by design
		ignoresNotFound := false
		for _, o := range body {
			ignoresNotFound = ignoresNotFound || strings.HasPrefix(ops[o].Name, "deleteIgnoringNotFound")
		}
		for _, sn := range c07StoreNames {
			if ignoresNotFound {
				break
			}
			faults = append(faults, c07Fault{kind: "veto", vetoStore: sn, vetoKind: boltz.EntityDeleted, errType: "notfound"})
		}
		if !ignoresNotFound {
			faults = append(faults, c07Fault{kind: "strategy", vetoStore: "mgr", stratOp: "delete", errType: "notfound"}, c07Fault{kind: "strategy", vetoStore: "prof", stratOp: "delete", errType: "notfound"})
		}
		faults = append(faults, c07Fault{kind: "veto", vetoStore: "people", vetoKind: boltz.EntityUpdated, errType: "notfound"}, c07Fault{kind: "veto", vetoStore: "people", vetoKind: boltz.EntityCreated, errType: "notfound"},
			c07Fault{kind: "caller", callerAt: len(body), errType: "notfound"}, c07Fault{kind: "precommit", pre: "F", errType: "notfound"}, c07Fault{kind: "precommit", pre: "SF", errType: "notfound"})
		routes := []string{"Update"}
		if bi%7 == 0 {
			routes = append(routes, "nested-Update")
		}
		for _, route := range routes {
			var writes int
			for fi := 0; fi < len(faults); fi++ {
				f := faults[fi]
				n := c07Run(rep, w, h, ops, body, st, m, reject, f, route, pre, preHash)
				if f.kind == "none" && route == "Update" {
					writes = n
					if faultsActive && reject < 0 {
						for kk := 1; kk <= writes; kk++ {
							faults = append(faults, c07Fault{kind: "storage", writeNo: kk})
						}
					}
				}
			}
		}
		// Batch waits 10 ms per call: one body in 40, without fault, with caller error, with veto
		// ... and every body made of one delete (a refused delete is re-run by bbolt's batch machinery on its own)
		oneDelete := len(body) == 1 && strings.HasPrefix(ops[body[0]].Name, "delete")
		if bi%40 == 0 || oneDelete {
			bfaults := []c07Fault{{kind: "none"}, {kind: "caller", callerAt: len(body)}, {kind: "precommit", pre: "F"}, {kind: "precommit", pre: "FS"}, {kind: "precommit", pre: "oF"}}
			if oneDelete {
				// a vetoed delete: bbolt runs the failed function a second time on its own, with the same mutate context
				for _, sn := range c07StoreNames {
					bfaults = append(bfaults, c07Fault{kind: "veto", vetoStore: sn, vetoKind: boltz.EntityDeleted})
				}
				bfaults = append(bfaults, c07Fault{kind: "strategy", vetoStore: "mgr", stratOp: "delete"}, c07Fault{kind: "strategy", vetoStore: "prof", stratOp: "delete"})
			}
			for _, f := range bfaults {
				c07Run(rep, w, h, ops, body, st, m, reject, f, "Batch", pre, preHash)
			}
		}
		if rep.TooMany() {
			return
		}
	}
}

// c07Run executes one (body, fault, route) case and checks the oracle; returns the number of storage writes.
func c07Run(rep *report.Report, w *c07World, h *c07Db, ops []explore.Op, body []int, st *explore.State, modelAfter explore.Model, reject int, f c07Fault, route string, pre *dump.Tree, preHash string) int {
	w.resetCounters()
	w.vetoStore, w.vetoKind = "", 0
	if f.kind == "veto" {
		w.vetoStore, w.vetoKind = f.vetoStore, f.vetoKind
	}
	errBoom, errVeto := errBoom, errVeto
	if f.errType == "notfound" {
		// the failure carries an error type the library itself produces and reacts to elsewhere
		errBoom = boltz.NewNotFoundError("thing", "id", "#verif-caller")
		errVeto = boltz.NewNotFoundError("thing", "id", "#verif-veto")
	}
	w.vetoErr = errVeto
	w.stratStore, w.stratOp = "", ""
	if f.kind == "strategy" {
		w.stratStore, w.stratOp = f.vetoStore, f.stratOp
	}
	opErrs := make([]error, len(body))
	ran := make([]bool, len(body))
	vetoAt := -1
	plan := &vfault.Plan{}
	if f.kind == "storage" {
		plan.FailAt = f.writeNo
	}
	storageAt := -1
	fn := func(ctx boltz.MutateContext) error {
		vfault.Attach(ctx.Tx(), plan)
		defer vfault.Detach(ctx.Tx())
		ctx.AddCommitAction(func() { atomic.AddInt64(&w.commitActs, 1) })
		if f.kind == "precommit" && !strings.HasPrefix(f.pre, "o") {
			for _, a := range f.pre {
				switch a {
				case 'F':
					ctx.AddPreCommitAction(func(boltz.MutateContext) error { return errBoom })
				case 'f':
					ctx.AddPreCommitAction(func(c boltz.MutateContext) error {
						c.AddPreCommitAction(func(boltz.MutateContext) error { return nil })
						return errBoom
					})
				case 'Q':
					ctx.AddPreCommitAction(func(c boltz.MutateContext) error {
						c.AddPreCommitAction(func(boltz.MutateContext) error { return nil })
						return nil
					})
				default:
					ctx.AddPreCommitAction(func(boltz.MutateContext) error { return nil })
				}
			}
		}
		for i, o := range body {
			if f.kind == "caller" && f.callerAt == i {
				return errBoom
			}
			ran[i] = true
			opErrs[i] = ops[o].Do(ctx)
			if w.vetoFired && vetoAt < 0 {
				vetoAt = i
			}
			if plan.Fired && storageAt < 0 {
				storageAt = i
			}
			if opErrs[i] != nil {
				return opErrs[i]
			}
		}
		if f.kind == "caller" && f.callerAt == len(body) {
			return errBoom
		}
		return nil
	}
	var err error
	db := h.db
	ctx := boltz.NewMutateContext(context.Background())
	if f.kind == "precommit" && strings.HasPrefix(f.pre, "o") {
		// registered on the context BEFORE the transaction is started (Db.Batch may run the function twice)
		for _, a := range f.pre[1:] {
			if a == 'F' {
				ctx.AddPreCommitAction(func(boltz.MutateContext) error { return errBoom })
			} else {
				ctx.AddPreCommitAction(func(boltz.MutateContext) error { return nil })
			}
		}
	}
	var panicked interface{}
	func() {
		defer func() { panicked = recover() }()
		switch route {
		case "Update":
			err = db.Update(ctx, fn)
		case "nested-Update":
			err = db.Update(ctx, func(ctx boltz.MutateContext) error { return db.Update(ctx, fn) })
		case "Batch":
			err = db.Batch(ctx, fn)
		}
	}()
	vsync.WaitIdle()
	if panicked != nil {
		var pn []string
		for _, o := range body {
			pn = append(pn, ops[o].Name)
		}
		rep.Count("evaluations", 1)
		rep.Violation(fmt.Sprintf("C07|panic|%s|%s(%s)", strings.Join(pn, " ; "), f.kind, plan.Op), fmt.Sprintf("body{%s} fault=%s route=%s: the failure surfaced as a panic instead of an error: %v", strings.Join(pn, " ; "), f, route, panicked), map[string]interface{}{"base_state_history": st.History, "body": pn, "fault": f.String(), "route": route})
		h.reset()
		return plan.Writes
	}
	var post *dump.Tree
	_ = db.View(func(tx *bbolt.Tx) error { post = dump.Tx(tx); return nil })
	if post.Hash() != preHash {
		defer h.reset() // every case starts from the base state
	}

	var names []string
	for _, o := range body {
		names = append(names, ops[o].Name)
	}
	bodyName := strings.Join(names, " ; ")
	label := fmt.Sprintf("body{%s} fault=%s route=%s", bodyName, f, route)
	replay := map[string]interface{}{"base_state_history": st.History, "body": names, "fault": f.String(), "route": route}
	rep.Count("evaluations", 1)
	sig := func(kind string) string { return fmt.Sprintf("C07|%s|%s|%s|%s", kind, bodyName, f, route) }

	// which failure is expected to happen first
	expectFail := false
	switch {
	case f.kind == "caller" && (reject < 0 || f.callerAt <= reject):
		expectFail = true
	case reject >= 0:
		expectFail = true
	case f.kind == "precommit":
		expectFail = true
	case w.vetoFired, plan.Fired:
		expectFail = true
	}
	if expectFail {
		rep.Count("failure_cases", 1)
		rep.Outcome("fails:" + f.kind)
	} else {
		rep.Outcome("commits")
	}
	// a rejected / vetoed / storage-failed step must be reported by the store call itself
	if reject >= 0 && ran[reject] && opErrs[reject] == nil && vetoAt < 0 && storageAt < 0 {
		rep.Violation(sig("store-call-reports-success-although-rejected"), label+": the reference model rejects operation #"+fmt.Sprint(reject+1)+" but the store call returned nil", replay)
	}
	if vetoAt >= 0 && opErrs[vetoAt] == nil {
		rep.Violation(fmt.Sprintf("C07|veto-swallowed|%s|%s", names[vetoAt], f), label+": a constraint vetoed operation #"+fmt.Sprint(vetoAt+1)+" ("+names[vetoAt]+") but the store call returned nil", replay)
	}
	if storageAt >= 0 && opErrs[storageAt] == nil {
		rep.Violation(fmt.Sprintf("C07|storage-error-swallowed|%s|write-%d(%s)", names[storageAt], f.writeNo, plan.Op), label+fmt.Sprintf(": storage write #%d (%s) failed during operation #%d (%s) but the store call returned nil", f.writeNo, plan.Op, storageAt+1, names[storageAt]), replay)
	}
	// a constraint that would veto must have been consulted: a committed change of the vetoed kind that is visible on
	// the vetoing store - directly, or as the parent event of a change made through a child store (parent-store
	// constraints apply to child entities) - cannot go through with the veto armed
	if f.kind == "veto" && !w.vetoFired && reject < 0 && err == nil {
		kindName := map[boltz.EntityEventType]string{boltz.EntityCreated: "create", boltz.EntityUpdated: "update", boltz.EntityDeleted: "delete"}[f.vetoKind]
		for bi, o := range body {
			if o >= len(w.k.opInfo) {
				continue
			}
			info := w.k.opInfo[o]
			k := info.kind
			if k == "patch" {
				k = "update"
			}
			if k != kindName {
				continue
			}
			person := info.via == "people" || info.via == "mgr" || info.via == "prof"
			visible := info.via == f.vetoStore && (k != "update" || info.via != "people") // an update through the parent may be handled by a child store
			if person && f.vetoStore == "people" {
				visible = true
			}
			if person && k == "update" && info.via == "people" && f.vetoStore == "people" {
				visible = true
			}
			if visible {
				rep.Violation(fmt.Sprintf("C07|veto-not-consulted|%s|%s", names[bi], f), label+": operation #"+fmt.Sprint(bi+1)+" ("+names[bi]+") was committed although a constraint on store "+f.vetoStore+" vetoes every "+kindName+" - the constraint was never asked", replay)
				break
			}
		}
	}
	if expectFail {
		if err == nil {
			rep.Violation(sig("transaction-reports-success"), label+": a step failed but the transaction returned nil", replay)
		}
		if post.Hash() != preHash {
			rep.Violation(sig("failed-transaction-changed-database"), label+": the transaction failed ("+fmt.Sprint(err)+") but the database changed:\n"+dump.Diff(pre, post), replay)
		}
		if n := atomic.LoadInt64(&w.listenerHits) + atomic.LoadInt64(&w.postCommits); n != 0 {
			rep.Violation(sig("listener-ran-for-failed-transaction"), label+fmt.Sprintf(": %d listener/post-commit invocations although the transaction failed", n), replay)
		}
		if n := atomic.LoadInt64(&w.commitActs); n != 0 {
			rep.Violation(sig("commit-action-ran-for-failed-transaction"), label+": a commit action ran although the transaction failed", replay)
		}
		if n := atomic.LoadInt64(&w.txCompletes); n != 0 {
			rep.Violation(sig("tx-complete-listener-ran-for-failed-transaction"), label+": a tx-complete listener ran although the transaction failed", replay)
		}
		return plan.Writes
	}
	// no failure expected
	if err != nil {
		rep.Violation(sig("unexpected-failure"), label+": no failure was injected and the reference model accepts the body, but the transaction failed: "+err.Error(), replay)
		return plan.Writes
	}
	want := modelAfter.Render()
	if got := w.k.Normalize(post); !got.Equal(want) {
		rep.Violation(sig("committed-state-mismatch"), label+": committed database differs from the reference image:\n"+dump.Diff(got, want), replay)
	}
	if n := atomic.LoadInt64(&w.commitActs); n != 1 {
		rep.Violation(sig("commit-action-count"), label+fmt.Sprintf(": commit action ran %d times for one committed transaction", n), replay)
	}
	if n := atomic.LoadInt64(&w.txCompletes); route != "Batch" && n != 1 {
		rep.Violation(sig("tx-complete-count"), label+fmt.Sprintf(": tx-complete listener ran %d times for one committed Db.Update", n), replay)
	}
	return plan.Writes
}
