package checks

import (
	"errors"
	"fmt"
	"os"
	"time"

	"github.com/openziti/storage/boltz"
	"verif/explore"
	"verif/report"
	"verif/world"
)

// c07StickyErrors: a rejection recorded on an entity's bucket (a constraint refusing the change before the entity
// strategy runs, an earlier failed write) must survive whatever the strategy writes afterwards - otherwise the
// store call would report success for a rejected step. Every exported setter of PersistContext and of
// TypedBucket is called on a bucket that already carries an error, with no field checker, with a checker that
// selects the field and with one that does not; afterwards the bucket must still report that error.
func c07StickyErrors(rep *report.Report) {
	dir := explore.TmpDir("c07sticky")
	defer os.RemoveAll(dir)
	db, err := boltz.Open(dir+"/sticky.db", "root")
	if err != nil {
		panic(err)
	}
	defer db.Close()
	lw := newLinkWorld() // a store with a link collection, for SetLinkedIds
	if err := lw.InitDb(db); err != nil {
		panic(err)
	}
	refusal := errors.New("verif: refusal recorded before the strategy ran")
	now := time.Date(2020, 1, 2, 3, 4, 5, 0, time.UTC)
	sp := "p"
	type setter struct {
		name string
		call func(ctx *boltz.PersistContext, f string)
	}
	setters := []setter{
		{"PersistContext.SetRequiredString", func(c *boltz.PersistContext, f string) { c.SetRequiredString(f, "v") }},
		{"PersistContext.SetString", func(c *boltz.PersistContext, f string) { c.SetString(f, "v") }},
		{"PersistContext.SetStringP", func(c *boltz.PersistContext, f string) { c.SetStringP(f, &sp) }},
		{"PersistContext.SetStringP(nil)", func(c *boltz.PersistContext, f string) { c.SetStringP(f, nil) }},
		{"PersistContext.GetAndSetString", func(c *boltz.PersistContext, f string) { c.GetAndSetString(f, "v") }},
		{"PersistContext.SetTimeP", func(c *boltz.PersistContext, f string) { c.SetTimeP(f, &now) }},
		{"PersistContext.SetTimeP(nil)", func(c *boltz.PersistContext, f string) { c.SetTimeP(f, nil) }},
		{"PersistContext.SetBool", func(c *boltz.PersistContext, f string) { c.SetBool(f, true) }},
		{"PersistContext.SetInt32", func(c *boltz.PersistContext, f string) { c.SetInt32(f, 3) }},
		{"PersistContext.SetInt64", func(c *boltz.PersistContext, f string) { c.SetInt64(f, 3) }},
		{"PersistContext.SetMap", func(c *boltz.PersistContext, f string) { c.SetMap(f, map[string]interface{}{"k": "v"}) }},
		{"PersistContext.SetStringList", func(c *boltz.PersistContext, f string) { c.SetStringList(f, []string{"a"}) }},
		{"PersistContext.GetAndSetStringList", func(c *boltz.PersistContext, f string) { c.GetAndSetStringList(f, []string{"a"}) }},
		{"PersistContext.SetLinkedIds", func(c *boltz.PersistContext, _ string) { c.SetLinkedIds("bs", []string{"b1"}) }},
		{"TypedBucket.SetString", func(c *boltz.PersistContext, f string) { c.Bucket.SetString(f, "v", c.FieldChecker) }},
		{"TypedBucket.SetStringP", func(c *boltz.PersistContext, f string) { c.Bucket.SetStringP(f, &sp, c.FieldChecker) }},
		{"TypedBucket.SetBool", func(c *boltz.PersistContext, f string) { c.Bucket.SetBool(f, true, c.FieldChecker) }},
		{"TypedBucket.SetFloat64", func(c *boltz.PersistContext, f string) { c.Bucket.SetFloat64(f, 1.5, c.FieldChecker) }},
		{"TypedBucket.SetInt64", func(c *boltz.PersistContext, f string) { c.Bucket.SetInt64(f, 3, c.FieldChecker) }},
		{"TypedBucket.SetInt32", func(c *boltz.PersistContext, f string) { c.Bucket.SetInt32(f, 3, c.FieldChecker) }},
		{"TypedBucket.SetTime", func(c *boltz.PersistContext, f string) { c.Bucket.SetTime(f, now, c.FieldChecker) }},
		{"TypedBucket.SetTimeP", func(c *boltz.PersistContext, f string) { c.Bucket.SetTimeP(f, &now, c.FieldChecker) }},
		{"TypedBucket.SetNil", func(c *boltz.PersistContext, f string) { c.Bucket.SetNil(f) }},
		{"TypedBucket.SetStringList", func(c *boltz.PersistContext, f string) { c.Bucket.SetStringList(f, []string{"a"}, c.FieldChecker) }},
		{"TypedBucket.GetAndSetStringList", func(c *boltz.PersistContext, f string) {
			c.Bucket.GetAndSetStringList(f, []string{"a"}, c.FieldChecker)
		}},
		{"TypedBucket.GetAndSetString", func(c *boltz.PersistContext, f string) { c.Bucket.GetAndSetString(f, "v", c.FieldChecker) }},
		{"TypedBucket.PutMap", func(c *boltz.PersistContext, f string) {
			c.Bucket.PutMap(f, map[string]interface{}{"k": "v"}, c.FieldChecker, true)
		}},
		{"TypedBucket.PutList", func(c *boltz.PersistContext, f string) {
			c.Bucket.PutList(f, []interface{}{"a", int64(1)}, c.FieldChecker)
		}},
		{"TypedBucket.PutValue", func(c *boltz.PersistContext, f string) { c.Bucket.PutValue([]byte(f), []byte("v")) }},
		{"TypedBucket.DeleteValue", func(c *boltz.PersistContext, f string) { c.Bucket.DeleteValue([]byte(f)) }},
		{"TypedBucket.SetListEntry", func(c *boltz.PersistContext, f string) { c.Bucket.SetListEntry(boltz.TypeString, []byte(f)) }},
		{"TypedBucket.DeleteListEntry", func(c *boltz.PersistContext, f string) { c.Bucket.DeleteListEntry(boltz.TypeString, []byte(f)) }},
		{"TypedBucket.SetLinkCount", func(c *boltz.PersistContext, f string) { _, _ = c.Bucket.SetLinkCount(boltz.TypeString, []byte(f), 2) }},
		{"TypedBucket.IncrementLinkCount", func(c *boltz.PersistContext, f string) {
			_, _ = c.Bucket.IncrementLinkCount(boltz.TypeString, []byte(f))
		}},
		{"TypedBucket.GetOrCreateBucket", func(c *boltz.PersistContext, f string) { c.Bucket.GetOrCreateBucket(f + "-sub") }},
		{"TypedBucket.GetOrCreatePath", func(c *boltz.PersistContext, f string) { c.Bucket.GetOrCreatePath(f+"-sub", "x") }},
		{"TypedBucket.EmptyBucket", func(c *boltz.PersistContext, f string) { _, _ = c.Bucket.EmptyBucket(f + "-sub") }},
	}
	checkers := []struct {
		name string
		fc   func(f string) boltz.FieldChecker
	}{
		{"no field checker", func(string) boltz.FieldChecker { return nil }},
		{"checker selecting the field", func(f string) boltz.FieldChecker { return boltz.MapFieldChecker{f: struct{}{}, "bs": struct{}{}} }},
		{"checker not selecting the field", func(string) boltz.FieldChecker { return boltz.MapFieldChecker{"other": struct{}{}} }},
	}
	for _, st := range setters {
		for _, ck := range checkers {
			for _, preExisting := range []bool{false, true} {
				st, ck := st, ck
				rep.Count("evaluations", 1)
				rep.Count("sticky_error_cases", 1)
				var after error
				var pan interface{}
				_ = db.Update(nil, func(ctx boltz.MutateContext) error {
					defer func() { pan = recover() }()
					if err := lw.A.Create(ctx, newLinkRec("as", "a1")); err != nil {
						return err
					}
					if err := lw.B.Create(ctx, newLinkRec("bs", "b1")); err != nil {
						return err
					}
					bucket := lw.A.GetEntityBucket(ctx.Tx(), []byte("a1"))
					if preExisting {
						bucket.SetString("fld", "old", nil)
						bucket.GetOrCreateBucket("fld-sub")
					}
					pc := &boltz.PersistContext{MutateContext: ctx, Id: "a1", Store: lw.A, Bucket: bucket, FieldChecker: ck.fc("fld")}
					bucket.SetError(refusal)
					st.call(pc, "fld")
					after = bucket.GetError()
					return errors.New("roll back")
				})
				label := fmt.Sprintf("%s on a bucket that already carries an error (%s, field present before=%v)", st.name, ck.name, preExisting)
				if pan != nil {
					rep.Violation("C07|sticky-error|panic|"+st.name, label+fmt.Sprintf(": panic %v", pan), map[string]interface{}{"setter": st.name, "checker": ck.name})
					continue
				}
				if after == nil {
					rep.Violation("C07|sticky-error|cleared|"+st.name, label+": the recorded error is gone - the store call would report success for a rejected step", map[string]interface{}{"setter": st.name, "checker": ck.name, "field_present_before": preExisting})
					continue
				}
				rep.Outcome("error-kept")
			}
		}
	}
}

func newLinkRec(entityType, id string) *world.Rec {
	return world.NewRec(entityType, id).With("label", "L")
}

// c07RejectedValues: a value the storage layer cannot represent (an unsupported Go type, an empty map key) must be
// reported wherever it sits inside a nested map / list value - first, last or in the middle, at any depth up to 3:
// after the write the bucket carries an error, so the store call fails. All value trees over {string leaf,
// unsupported leaf (two kinds), list and map of 1..2 children, map with an empty key} that contain at least one
// unrepresentable part are written through PutMap, PutList and PersistContext.SetMap.
func c07RejectedValues(rep *report.Report, thorough bool) {
	dir := explore.TmpDir("c07rej")
	defer os.RemoveAll(dir)
	db, err := boltz.Open(dir+"/rej.db", "root")
	if err != nil {
		panic(err)
	}
	defer db.Close()
	type tree struct {
		v    interface{}
		bad  bool
		text string
	}
	leaves := []tree{{"s", false, `"s"`}, {int64(4), false, "4"}, {uint8(7), true, "uint8(7)"}, {[]string{"x"}, true, `[]string{"x"}`}}
	var build func(depth int) []tree
	build = func(depth int) []tree {
		out := append([]tree{}, leaves...)
		if depth == 0 {
			return out
		}
		sub := build(depth - 1)
		// keep the fan-out small: children are drawn from the leaves plus the composite sub-trees that contain something bad
		var kids []tree
		for _, s := range sub {
			if s.bad || len(kids) < 2 {
				kids = append(kids, s)
			}
		}
		if len(kids) > 7 && !thorough {
			kids = kids[:7]
		}
		for _, a := range kids {
			out = append(out, tree{[]interface{}{a.v}, a.bad, "[" + a.text + "]"})
			out = append(out, tree{map[string]interface{}{"a": a.v}, a.bad, "{a:" + a.text + "}"})
			out = append(out, tree{map[string]interface{}{"": a.v}, true, `{"":` + a.text + "}"})
			for _, b := range kids {
				if !a.bad && !b.bad {
					continue
				}
				out = append(out, tree{[]interface{}{a.v, b.v}, true, "[" + a.text + "," + b.text + "]"})
				out = append(out, tree{map[string]interface{}{"a": a.v, "b": b.v}, true, "{a:" + a.text + ",b:" + b.text + "}"})
			}
		}
		return out
	}
	depth := 2
	if thorough {
		depth = 3
	}
	trees := build(depth)
	writers := []struct {
		name string
		call func(b *boltz.TypedBucket, ctx boltz.MutateContext, t interface{})
	}{
		{"PutMap(m, {k: V, z: ok})", func(b *boltz.TypedBucket, _ boltz.MutateContext, t interface{}) {
			b.PutMap("m", map[string]interface{}{"k": t, "z": "ok"}, nil, true)
		}},
		{"PutList(l, [ok, V, ok])", func(b *boltz.TypedBucket, _ boltz.MutateContext, t interface{}) {
			b.PutList("l", []interface{}{"ok", t, "ok"}, nil)
		}},
		{"PutList(l, [V])", func(b *boltz.TypedBucket, _ boltz.MutateContext, t interface{}) {
			b.PutList("l", []interface{}{t}, nil)
		}},
		{"PersistContext.SetMap(m, {k: V})", func(b *boltz.TypedBucket, ctx boltz.MutateContext, t interface{}) {
			pc := &boltz.PersistContext{MutateContext: ctx, Id: "x", Bucket: b}
			pc.SetMap("m", map[string]interface{}{"k": t})
		}},
	}
	for _, t := range trees {
		if !t.bad {
			continue
		}
		for _, w := range writers {
			t, w := t, w
			rep.Count("evaluations", 1)
			rep.Count("rejected_value_cases", 1)
			var after error
			var pan interface{}
			_ = db.Update(nil, func(ctx boltz.MutateContext) error {
				defer func() { pan = recover() }()
				b := boltz.GetOrCreatePath(ctx.Tx(), "root", "vals", "x")
				w.call(b, ctx, t.v)
				after = b.GetError()
				return errors.New("roll back")
			})
			if pan != nil {
				rep.Violation("C07|rejected-value|panic|"+w.name+"|"+t.text, fmt.Sprintf("%s with V = %s panicked: %v", w.name, t.text, pan), map[string]interface{}{"writer": w.name, "value": t.text})
				continue
			}
			if after == nil {
				rep.Violation("C07|rejected-value|accepted|"+w.name+"|"+t.text, fmt.Sprintf("%s with V = %s (which contains a part that cannot be stored) left no error on the bucket: the store call would report success", w.name, t.text), map[string]interface{}{"writer": w.name, "value": t.text})
				continue
			}
			rep.Outcome("unrepresentable-value-reported")
		}
	}
}
