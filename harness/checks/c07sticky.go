package checks

import (
	"errors"
	"fmt"
	"os"
	"time"

	"github.com/openziti/storage/boltz"
	"verif/explore"
	"verif/report"
	"verif/world"
)

// c07StickyErrors: a rejection recorded on an entity's bucket (a constraint refusing the change before the entity
// strategy runs, an earlier failed write) must survive whatever the strategy writes afterwards - otherwise the
// store call would report success for a rejected step. Every exported setter of PersistContext and of
// TypedBucket is called on a bucket that already carries an error, with no field checker, with a checker that
// selects the field and with one that does not; afterwards the bucket must still report that error.
func c07StickyErrors(rep *report.Report) {
	dir := explore.TmpDir("c07sticky")
	defer os.RemoveAll(dir)
	db, err := boltz.Open(dir+"/sticky.db", "root")
	if err != nil {
		panic(err)
	}
	defer db.Close()
	lw := newLinkWorld() // a store with a link collection, for SetLinkedIds
	if err := lw.InitDb(db); err != nil {
		panic(err)
	}
	refusal := errors.New("verif: refusal recorded before the strategy ran")
	now := time.Date(2020, 1, 2, 3, 4, 5, 0, time.UTC)
	sp := "p"
	type setter struct {
		name string
		call func(ctx *boltz.PersistContext, f string)
	}
	setters := []setter{
		{"PersistContext.SetRequiredString", func(c *boltz.PersistContext, f string) { c.SetRequiredString(f, "v") }},
		{"PersistContext.SetString", func(c *boltz.PersistContext, f string) { c.SetString(f, "v") }},
		{"PersistContext.SetStringP", func(c *boltz.PersistContext, f string) { c.SetStringP(f, &sp) }},
		{"PersistContext.SetStringP(nil)", func(c *boltz.PersistContext, f string) { c.SetStringP(f, nil) }},
		{"PersistContext.GetAndSetString", func(c *boltz.PersistContext, f string) { c.GetAndSetString(f, "v") }},
		{"PersistContext.SetTimeP", func(c *boltz.PersistContext, f string) { c.SetTimeP(f, &now) }},
		{"PersistContext.SetTimeP(nil)", func(c *boltz.PersistContext, f string) { c.SetTimeP(f, nil) }},
		{"PersistContext.SetBool", func(c *boltz.PersistContext, f string) { c.SetBool(f, true) }},
		{"PersistContext.SetInt32", func(c *boltz.PersistContext, f string) { c.SetInt32(f, 3) }},
		{"PersistContext.SetInt64", func(c *boltz.PersistContext, f string) { c.SetInt64(f, 3) }},
		{"PersistContext.SetMap", func(c *boltz.PersistContext, f string) { c.SetMap(f, map[string]interface{}{"k": "v"}) }},
		{"PersistContext.SetStringList", func(c *boltz.PersistContext, f string) { c.SetStringList(f, []string{"a"}) }},
		{"PersistContext.GetAndSetStringList", func(c *boltz.PersistContext, f string) { c.GetAndSetStringList(f, []string{"a"}) }},
		{"PersistContext.SetLinkedIds", func(c *boltz.PersistContext, _ string) { c.SetLinkedIds("bs", []string{"b1"}) }},
		{"TypedBucket.SetString", func(c *boltz.PersistContext, f string) { c.Bucket.SetString(f, "v", c.FieldChecker) }},
		{"TypedBucket.SetStringP", func(c *boltz.PersistContext, f string) { c.Bucket.SetStringP(f, &sp, c.FieldChecker) }},
		{"TypedBucket.SetBool", func(c *boltz.PersistContext, f string) { c.Bucket.SetBool(f, true, c.FieldChecker) }},
		{"TypedBucket.SetFloat64", func(c *boltz.PersistContext, f string) { c.Bucket.SetFloat64(f, 1.5, c.FieldChecker) }},
		{"TypedBucket.SetInt64", func(c *boltz.PersistContext, f string) { c.Bucket.SetInt64(f, 3, c.FieldChecker) }},
		{"TypedBucket.SetInt32", func(c *boltz.PersistContext, f string) { c.Bucket.SetInt32(f, 3, c.FieldChecker) }},
		{"TypedBucket.SetTime", func(c *boltz.PersistContext, f string) { c.Bucket.SetTime(f, now, c.FieldChecker) }},
		{"TypedBucket.SetTimeP", func(c *boltz.PersistContext, f string) { c.Bucket.SetTimeP(f, &now, c.FieldChecker) }},
		{"TypedBucket.SetNil", func(c *boltz.PersistContext, f string) { c.Bucket.SetNil(f) }},
		{"TypedBucket.SetStringList", func(c *boltz.PersistContext, f string) { c.Bucket.SetStringList(f, []string{"a"}, c.FieldChecker) }},
		{"TypedBucket.GetAndSetStringList", func(c *boltz.PersistContext, f string) { c.Bucket.GetAndSetStringList(f, []string{"a"}, c.FieldChecker) }},
		{"TypedBucket.GetAndSetString", func(c *boltz.PersistContext, f string) { c.Bucket.GetAndSetString(f, "v", c.FieldChecker) }},
		{"TypedBucket.PutMap", func(c *boltz.PersistContext, f string) { c.Bucket.PutMap(f, map[string]interface{}{"k": "v"}, c.FieldChecker, true) }},
		{"TypedBucket.PutList", func(c *boltz.PersistContext, f string) { c.Bucket.PutList(f, []interface{}{"a", int64(1)}, c.FieldChecker) }},
		{"TypedBucket.PutValue", func(c *boltz.PersistContext, f string) { c.Bucket.PutValue([]byte(f), []byte("v")) }},
		{"TypedBucket.DeleteValue", func(c *boltz.PersistContext, f string) { c.Bucket.DeleteValue([]byte(f)) }},
		{"TypedBucket.SetListEntry", func(c *boltz.PersistContext, f string) { c.Bucket.SetListEntry(boltz.TypeString, []byte(f)) }},
		{"TypedBucket.DeleteListEntry", func(c *boltz.PersistContext, f string) { c.Bucket.DeleteListEntry(boltz.TypeString, []byte(f)) }},
		{"TypedBucket.SetLinkCount", func(c *boltz.PersistContext, f string) { _, _ = c.Bucket.SetLinkCount(boltz.TypeString, []byte(f), 2) }},
		{"TypedBucket.IncrementLinkCount", func(c *boltz.PersistContext, f string) { _, _ = c.Bucket.IncrementLinkCount(boltz.TypeString, []byte(f)) }},
		{"TypedBucket.GetOrCreateBucket", func(c *boltz.PersistContext, f string) { c.Bucket.GetOrCreateBucket(f + "-sub") }},
		{"TypedBucket.GetOrCreatePath", func(c *boltz.PersistContext, f string) { c.Bucket.GetOrCreatePath(f+"-sub", "x") }},
		{"TypedBucket.EmptyBucket", func(c *boltz.PersistContext, f string) { _, _ = c.Bucket.EmptyBucket(f + "-sub") }},
	}
	checkers := []struct {
		name string
		fc   func(f string) boltz.FieldChecker
	}{
		{"no field checker", func(string) boltz.FieldChecker { return nil }},
		{"checker selecting the field", func(f string) boltz.FieldChecker { return boltz.MapFieldChecker{f: struct{}{}, "bs": struct{}{}} }},
		{"checker not selecting the field", func(string) boltz.FieldChecker { return boltz.MapFieldChecker{"other": struct{}{}} }},
	}
	for _, st := range setters {
		for _, ck := range checkers {
			for _, preExisting := range []bool{false, true} {
				st, ck := st, ck
				rep.Count("evaluations", 1)
				rep.Count("sticky_error_cases", 1)
				var after error
				var pan interface{}
				_ = db.Update(nil, func(ctx boltz.MutateContext) error {
					defer func() { pan = recover() }()
					if err := lw.A.Create(ctx, newLinkRec("as", "a1")); err != nil {
						return err
					}
					if err := lw.B.Create(ctx, newLinkRec("bs", "b1")); err != nil {
						return err
					}
					bucket := lw.A.GetEntityBucket(ctx.Tx(), []byte("a1"))
					if preExisting {
						bucket.SetString("fld", "old", nil)
						bucket.GetOrCreateBucket("fld-sub")
					}
					pc := &boltz.PersistContext{MutateContext: ctx, Id: "a1", Store: lw.A, Bucket: bucket, FieldChecker: ck.fc("fld")}
					bucket.SetError(refusal)
					st.call(pc, "fld")
					after = bucket.GetError()
					return errors.New("roll back")
				})
				label := fmt.Sprintf("%s on a bucket that already carries an error (%s, field present before=%v)", st.name, ck.name, preExisting)
				if pan != nil {
					rep.Violation("C07|sticky-error|panic|"+st.name, label+fmt.Sprintf(": panic %v", pan), map[string]interface{}{"setter": st.name, "checker": ck.name})
					continue
				}
				if after == nil {
					rep.Violation("C07|sticky-error|cleared|"+st.name, label+": the recorded error is gone - the store call would report success for a rejected step", map[string]interface{}{"setter": st.name, "checker": ck.name, "field_present_before": preExisting})
					continue
				}
				rep.Outcome("error-kept")
			}
		}
	}
}

func newLinkRec(entityType, id string) *world.Rec {
	return world.NewRec(entityType, id).With("label", "L")
}
