package checks

import (
	"context"
	"fmt"
	"os"
	"sort"
	"strings"
	"sync/atomic"

	"github.com/openziti/foundation/v2/errorz"
	"github.com/openziti/storage/boltz"
	"go.etcd.io/bbolt"
	"verif/dump"
	"verif/explore"
	"verif/report"
	"verif/world"
)

// ---------------------------------------------------------------------------------------------
// C16 — system entities can only be changed from a system context.

type sysThing struct {
	name string
	sys  bool
	vip  bool // has child-store data
	ext  bool // has data in the extended child store
}

type sysModel struct{ things map[string]sysThing }

func (m *sysModel) Clone() explore.Model {
	n := &sysModel{things: map[string]sysThing{}}
	for k, v := range m.things {
		n.things[k] = v
	}
	return n
}

func (m *sysModel) Render() *dump.Tree {
	t := dump.NewTree()
	for id, th := range m.things {
		b := t.Ensure("root", "things", id)
		b.Values["name"] = world.EncString(th.name)
		b.Values["title"] = world.EncString("T-" + th.name)
		b.Values["createdAt"] = []byte{6, 'T'}
		b.Values["updatedAt"] = []byte{6, 'T'}
		if th.sys {
			b.Values["isSystem"] = world.EncBool(true)
		}
		t.Ensure("root", "indexes", "things", "name").Values[th.name] = []byte(id)
		if th.vip {
			t.Ensure("root", "things", id, "vip").Values["rank"] = world.EncInt64(7)
		}
		if th.ext {
			t.Ensure("root", "things", id, "ext").Values["level"] = world.EncInt64(9)
		}
	}
	return t
}

type sysScenario struct {
	store *world.Store
	vip   *world.Store // plain child store: the constraint must hold for operations routed through it as well
	ext   *world.Store // extended child store (it shows every entity of the parent store)
	ids   []string
	ops   []explore.Op
}

func newSysScenario() *sysScenario {
	sc := &sysScenario{ids: []string{"s1", "s2"}}
	sc.store = world.NewStore(&world.Spec{EntityType: "things", BasePath: []string{"root"}, Ext: true,
		// `title` is written with SetRequiredString, `name` with SetString: both after the constraint has had its say
		Fields: []world.Field{{Name: "name", Kind: world.KString}, {Name: "title", Kind: world.KReqString}}})
	sc.store.AddExtEntitySymbols()
	nameSym := sc.store.AddSymbol("name", 4)
	sc.store.AddUniqueIndex(nameSym)
	sc.store.AddConstraint(boltz.NewSystemEntityEnforcementConstraint(sc.store))
	sc.vip = world.NewStore(&world.Spec{Parent: sc.store, ChildPath: []string{"vip"}, Ext: true, Fields: []world.Field{
		{Name: "name", Kind: world.KString}, {Name: "title", Kind: world.KReqString}, {Name: "rank", Kind: world.KInt64P, Child: true}}})
	sc.store.GrantSymbols(sc.vip)
	sc.ext = world.NewStore(&world.Spec{Parent: sc.store, ChildPath: []string{"ext"}, Ext: true, Extended: true, Fields: []world.Field{
		{Name: "name", Kind: world.KString}, {Name: "title", Kind: world.KReqString}, {Name: "level", Kind: world.KInt64P, Child: true}}})
	sc.store.GrantSymbols(sc.ext)
	sc.buildOps()
	return sc
}

func (sc *sysScenario) Name() string { return "S_sys" }
func (sc *sysScenario) InitDb(db *boltz.DbImpl) error {
	return db.Update(nil, func(ctx boltz.MutateContext) error {
		h := &errorz.ErrorHolderImpl{}
		sc.store.InitializeIndexes(ctx.Tx(), h)
		sc.vip.InitializeIndexes(ctx.Tx(), h)
		sc.ext.InitializeIndexes(ctx.Tx(), h)
		return h.GetError()
	})
}
func (sc *sysScenario) NewModel() explore.Model             { return &sysModel{things: map[string]sysThing{}} }
func (sc *sysScenario) Ops() []explore.Op                   { return sc.ops }
func (sc *sysScenario) Context(_ []int) boltz.MutateContext { return explore.OrdinaryContext() }
func (sc *sysScenario) Classify(err error) string {
	if err == errSkip {
		return "skip"
	}
	if err != nil && strings.Contains(err.Error(), "non-system context") {
		return "system"
	}
	c := classifyCommon(err)
	if strings.HasPrefix(c, "other:") {
		// errorz API errors wrap the cause; look at the cause text as well
		if ae, ok := err.(interface{ Unwrap() error }); ok && ae.Unwrap() != nil && strings.Contains(ae.Unwrap().Error(), "non-system context") {
			return "system"
		}
		if strings.Contains(fmt.Sprintf("%+v", err), "non-system context") {
			return "system"
		}
	}
	return c
}
func (sc *sysScenario) Normalize(t *dump.Tree) *dump.Tree {
	return t.PruneEmpty(func([]string) bool { return false })
}

func (sc *sysScenario) rec(id, name string, sys bool) *world.Rec {
	r := world.NewRec("things", id).With("name", name).With("title", "T-"+name).With("rank", int64(7)).With("level", int64(9))
	r.IsSystem = sys
	return r
}

func (m *sysModel) nameTaken(id, name string) bool {
	for oid, o := range m.things {
		if oid != id && o.name == name {
			return true
		}
	}
	return false
}

var ctxFlip int64 // alternates between the two ways of obtaining a system context (both must behave the same)

func (sc *sysScenario) buildOps() {
	ctxOf := func(system bool, ctx boltz.MutateContext) boltz.MutateContext {
		if system {
			// the system context is a wrapper around the transaction's context (also: wrapping twice must stay system);
			// both ways of obtaining it are used, alternating with every call
			if atomic.AddInt64(&ctxFlip, 1)%2 == 0 {
				return boltz.NewSystemMutateContext(boltz.NewSystemMutateContext(ctx))
			}
			return ctx.GetSystemContext().GetSystemContext()
		}
		return ctx
	}
	cn := map[bool]string{true: "SYSTEM-ctx", false: "ordinary-ctx"}
	for _, id := range sc.ids {
		for _, via := range []string{"things", "vip", "ext"} {
			via := via
			store := sc.store
			if via == "vip" {
				store = sc.vip
			}
			if via == "ext" {
				store = sc.ext
			}
			// has the entity data in the child store the operation goes through?
			hasChildData := func(ctx boltz.MutateContext, id string) bool {
				return via == "things" || store.GetEntityBucket(ctx.Tx(), []byte(id)) != nil
			}
			modelHas := func(th sysThing) bool {
				return via == "things" || (via == "vip" && th.vip) || (via == "ext" && th.ext)
			}
			for _, system := range []bool{false, true} {
				id, system := id, system
				for _, name := range []string{"A", "B"} {
					for _, flag := range []bool{false, true} {
						name, flag := name, flag
						sc.ops = append(sc.ops, explore.Op{
							Name: fmt.Sprintf("create@%s(%s,name=%s,isSystem=%v)@%s", via, id, name, flag, cn[system]),
							Do: func(ctx boltz.MutateContext) error {
								if via != "things" && sc.store.IsEntityPresent(ctx.Tx(), id) {
									return errSkip
								}
								return store.Create(ctxOf(system, ctx), sc.rec(id, name, flag))
							},
							Apply: func(mm explore.Model) []string {
								m := mm.(*sysModel)
								if _, ok := m.things[id]; ok {
									if via != "things" {
										return []string{"skip"}
									}
									return []string{"exists"}
								}
								var errs []string
								if m.nameTaken(id, name) {
									errs = append(errs, "dup")
								}
								if flag && !system {
									errs = append(errs, "system")
								}
								if errs != nil {
									return errs
								}
								m.things[id] = sysThing{name: name, sys: flag, vip: via == "vip", ext: via == "ext"}
								return []string{"ok"}
							},
						})
						for _, style := range []string{"update", "patch", "migrate", "migrate-patch"} {
							patch := strings.HasSuffix(style, "patch")
							migrate := strings.HasPrefix(style, "migrate")
							var checker boltz.FieldChecker
							label := "update"
							if patch {
								checker = boltz.MapFieldChecker{"name": struct{}{}, "title": struct{}{}, "isSystem": struct{}{}, "createdAt": struct{}{}}
								label = "patch[name,title,isSystem,createdAt]"
							}
							if migrate {
								// an entity marked as migrated (it brings its own timestamps) is still only updated
								label += "[Migrate]"
							}
							sc.ops = append(sc.ops, explore.Op{
								Name: fmt.Sprintf("%s@%s(%s,name=%s,isSystem=%v)@%s", label, via, id, name, flag, cn[system]),
								Do: func(ctx boltz.MutateContext) error {
									if via == "ext" && sc.store.IsEntityPresent(ctx.Tx(), id) && !hasChildData(ctx, id) {
										return errSkip // an update through the extended store of an entity without data there is not specified
									}
									r := sc.rec(id, name, flag)
									r.Migrate = migrate
									return store.Update(ctxOf(system, ctx), r, checker)
								},
								Apply: func(mm explore.Model) []string {
									m := mm.(*sysModel)
									cur, ok := m.things[id]
									if ok && via == "ext" && !cur.ext {
										return []string{"skip"}
									}
									if !ok || (via == "vip" && !cur.vip) {
										return []string{"notfound"}
									}
									var errs []string
									if cur.sys && !system {
										errs = append(errs, "system")
									}
									if name != cur.name && m.nameTaken(id, name) {
										errs = append(errs, "dup")
									}
									if errs != nil {
										return errs
									}
									// the flag is fixed at creation: an update never changes it
									m.things[id] = sysThing{name: name, sys: cur.sys, vip: cur.vip, ext: cur.ext}
									return []string{"ok"}
								},
							})
						}
					}
				}
				sc.ops = append(sc.ops, explore.Op{
					Name: fmt.Sprintf("delete@%s(%s)@%s", via, id, cn[system]),
					Do: func(ctx boltz.MutateContext) error {
						if via != "things" && sc.store.IsEntityPresent(ctx.Tx(), id) && !hasChildData(ctx, id) {
							return errSkip
						}
						return store.DeleteById(ctxOf(system, ctx), id)
					},
					Apply: func(mm explore.Model) []string {
						m := mm.(*sysModel)
						cur, ok := m.things[id]
						if !ok {
							return []string{"notfound"}
						}
						if !modelHas(cur) {
							return []string{"skip"}
						}
						if cur.sys && !system {
							return []string{"system"}
						}
						delete(m.things, id)
						return []string{"ok"}
					},
				})
			}
		}
	}
}

func (sc *sysScenario) Invariant(tx *bbolt.Tx, mm explore.Model) error {
	m := mm.(*sysModel)
	var want []string
	for id, th := range m.things {
		want = append(want, id)
		e, found, err := sc.store.FindById(tx, id)
		if err != nil || !found {
			return fmt.Errorf("FindById(%s): found=%v err=%v", id, found, err)
		}
		if _, vfound, _ := sc.vip.FindById(tx, id); vfound != th.vip {
			return fmt.Errorf("child store FindById(%s) found=%v, model says %v", id, vfound, th.vip)
		}
		if e.IsSystem != th.sys || e.F["name"] != th.name {
			return fmt.Errorf("entity %s read back as name=%v isSystem=%v, model says name=%s isSystem=%v", id, e.F["name"], e.IsSystem, th.name, th.sys)
		}
	}
	sort.Strings(want)
	ids, _, err := sc.store.QueryIds(tx, "isSystem = true or isSystem != true")
	if err != nil {
		return err
	}
	if strings.Join(ids, ",") != strings.Join(want, ",") {
		return fmt.Errorf("QueryIds = %v, model says %v", ids, want)
	}
	return nil
}

func C16(tier string) int {
	rep := report.New("C16", tier, "model_checking")
	rep.Assume("bbolt transactions are atomic and isolated (trusted base)")
	rep.Set("rule", "BFS to closure over {create,update,patch,delete} x {system,ordinary context} x isSystem flag x 1..2 operations per transaction; oracle = complete image + read-back + error class")
	sc := newSysScenario()
	n := len(sc.Ops())
	if tier == "quick" {
		runE1(rep, sc, explore.Config{Programs: sysQuickPrograms(sc), SkipRejectedPrefix: true})
	} else {
		runE1(rep, sc, explore.Config{Programs: explore.Pairs(n), SkipRejectedPrefix: true})
	}
	c16PassedContexts(rep)
	return rep.Finish()
}

// sysQuickPrograms: all single operations, and all pairs whose first operation is a create (the constraint needs an existing entity).
func sysQuickPrograms(sc *sysScenario) [][]int {
	progs := explore.SingleOps(len(sc.Ops()))
	for i, a := range sc.Ops() {
		if !strings.HasPrefix(a.Name, "create@") {
			continue
		}
		for j := range sc.Ops() {
			progs = append(progs, []int{i, j})
		}
	}
	return progs
}

// c16PassedContexts: the system context is handed to Db.Update / Db.Batch by the caller (instead of being derived
// inside the transaction function): the transaction function must receive a context that still is a system
// context, and an ordinary one must still be refused - for create, update and delete, both routes, both ways of
// obtaining the system context.
func c16PassedContexts(rep *report.Report) {
	dir := explore.TmpDir("c16routes")
	defer os.RemoveAll(dir)
	n := 0
	for _, route := range []string{"Update", "Batch"} {
		for _, how := range []string{"GetSystemContext", "NewSystemMutateContext"} {
			n++
			sc := newSysScenario()
			db, err := boltz.Open(fmt.Sprintf("%s/r%d.db", dir, n), "root")
			if err != nil {
				panic(err)
			}
			if err := sc.InitDb(db); err != nil {
				panic(err)
			}
			mk := func(system bool) boltz.MutateContext {
				ctx := boltz.NewMutateContext(context.Background())
				if !system {
					return ctx
				}
				if how == "GetSystemContext" {
					return ctx.GetSystemContext()
				}
				return boltz.NewSystemMutateContext(ctx)
			}
			run := func(system bool, fn func(ctx boltz.MutateContext) error) error {
				if route == "Batch" {
					return db.Batch(mk(system), fn)
				}
				return db.Update(mk(system), fn)
			}
			steps := []struct {
				name   string
				system bool
				fn     func(ctx boltz.MutateContext) error
				wantOk bool
			}{
				{"create a system entity, ordinary context", false, func(ctx boltz.MutateContext) error { return sc.store.Create(ctx, sc.rec("s1", "A", true)) }, false},
				{"create a system entity, system context", true, func(ctx boltz.MutateContext) error { return sc.store.Create(ctx, sc.rec("s1", "A", true)) }, true},
				{"update it, ordinary context", false, func(ctx boltz.MutateContext) error { return sc.store.Update(ctx, sc.rec("s1", "B", true), nil) }, false},
				{"update it, system context", true, func(ctx boltz.MutateContext) error { return sc.store.Update(ctx, sc.rec("s1", "B", true), nil) }, true},
				{"create an ordinary entity, ordinary context", false, func(ctx boltz.MutateContext) error { return sc.store.Create(ctx, sc.rec("s2", "C", false)) }, true},
				{"delete the system entity, ordinary context", false, func(ctx boltz.MutateContext) error { return sc.store.DeleteById(ctx, "s1") }, false},
				{"delete the system entity, system context", true, func(ctx boltz.MutateContext) error { return sc.store.DeleteById(ctx, "s1") }, true},
				{"create a system entity through the child store, system context", true, func(ctx boltz.MutateContext) error { return sc.vip.Create(ctx, sc.rec("s1", "A", true)) }, true},
				{"delete it through the child store, ordinary context", false, func(ctx boltz.MutateContext) error { return sc.vip.DeleteById(ctx, "s1") }, false},
			}
			for _, st := range steps {
				rep.Count("evaluations", 1)
				rep.Count("passed_context_cases", 1)
				err := run(st.system, st.fn)
				if (err == nil) != st.wantOk {
					rep.Violation(fmt.Sprintf("C16|passed-context|%s|%s|%s", route, how, st.name), fmt.Sprintf("Db.%s with the context passed by the caller (%s): %s - err=%v, expected success=%v", route, how, st.name, err, st.wantOk), map[string]interface{}{"route": route, "how": how, "step": st.name})
					break
				}
			}
			_ = db.Close()
		}
	}
}
