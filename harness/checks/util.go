package checks

import "os"

func removeAll(dir string) { _ = os.RemoveAll(dir) }
