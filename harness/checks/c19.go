package checks

import (
	"fmt"
	"github.com/openziti/storage/ast"
	"runtime"
	"strings"
	"sync"
	"time"

	"github.com/openziti/storage/boltz"
	"github.com/openziti/storage/objectz"
	rm "verif/refmodel"
	"verif/report"
)

// ---------------------------------------------------------------------------------------------
// C19 — the in-memory object store answers queries like the bolt-backed store.

type c19Obj struct {
	id string
	s  *string
	i  *int64
	f  *float64
	b  *bool
	t  *time.Time
}

type sliceIter struct {
	objs []*c19Obj
	pos  int
}

func (it *sliceIter) IsValid() bool { return it.pos < len(it.objs) }
func (it *sliceIter) Next()         { it.pos++ }
func (it *sliceIter) Current() *c19Obj {
	if it.pos < len(it.objs) {
		return it.objs[it.pos]
	}
	return nil
}

func newObjStore(objs *[]*c19Obj) *objectz.ObjectStore[*c19Obj] {
	st := objectz.NewObjectStore[*c19Obj](func() objectz.ObjectIterator[*c19Obj] {
		return &sliceIter{objs: *objs}
	})
	st.AddStringSymbol("id", func(o *c19Obj) *string { return &o.id })
	st.AddStringSymbol("s", func(o *c19Obj) *string { return o.s })
	st.AddInt64Symbol("i", func(o *c19Obj) *int64 { return o.i })
	st.AddFloat64Symbol("f", func(o *c19Obj) *float64 { return o.f })
	st.AddBoolSymbol("b", func(o *c19Obj) *bool { return o.b })
	st.AddDatetimeSymbol("t", func(o *c19Obj) *time.Time { return o.t })
	return st
}

func entToObj(e *rm.Ent) *c19Obj {
	o := &c19Obj{id: e.Id}
	if v := e.F["s"]; !v.IsNull() {
		x := v.S
		o.s = &x
	}
	if v := e.F["i"]; !v.IsNull() {
		x := v.I
		o.i = &x
	}
	if v := e.F["f"]; !v.IsNull() {
		x := v.F
		o.f = &x
	}
	if v := e.F["b"]; !v.IsNull() {
		x := v.B
		o.b = &x
	}
	if v := e.F["t"]; !v.IsNull() {
		x := v.T
		o.t = &x
	}
	return o
}

func scalarOnly(e rm.Expr) bool {
	for _, s := range rm.Symbols(e) {
		switch s {
		case "id", "s", "i", "f", "b", "t":
		default:
			return false
		}
	}
	switch c := e.(type) {
	case rm.Cmp:
		return c.L.Fn == ""
	case rm.In:
		return c.L.Fn == ""
	case rm.Between:
		return c.L.Fn == ""
	case rm.IsEmpty:
		return false
	case rm.And:
		return scalarOnly(c.A) && scalarOnly(c.B)
	case rm.Or:
		return scalarOnly(c.A) && scalarOnly(c.B)
	case rm.Not:
		return scalarOnly(c.A)
	}
	return true
}

func C19(tier string) int {
	rep := report.New("C19", tier, "exploration")
	thorough := tier != "quick"
	rep.Set("rule", "every scalar-symbol atom and 2-atom composition of C01 plus every sort/skip/limit query of C02, on ALL assignments of the mentioned fields over tiny domains (2 entities for filters, 4 for sort/paging); the object store's (ids, order, count) must equal the bolt store's and the reference's")
	type cse struct {
		text   string
		pred   rm.Expr
		sortBy []rm.SortField
		page   pageSpec
		fields []string
		ids    int
	}
	var cases []cse
	for _, a := range c01Atoms(thorough) {
		if scalarOnly(a.e) && a.mandatory {
			cases = append(cases, cse{text: a.e.Text(), pred: a.e, fields: exprFields(a.e), ids: 2})
		}
	}
	comp := c01Composable()
	for i, a := range comp {
		for j, b := range comp {
			if i == j || !scalarOnly(a) || !scalarOnly(b) {
				continue
			}
			for _, e := range []rm.Expr{rm.And{A: a, B: b}, rm.Or{A: a, B: rm.Not{A: b}}} {
				if f := exprFields(e); len(f) <= 2 {
					cases = append(cases, cse{text: e.Text(), pred: e, fields: f, ids: 2})
				}
			}
		}
	}
	for _, c := range c02Cases(thorough) {
		if len(c.fields) == 2 && !thorough {
			continue
		}
		cases = append(cases, cse{text: c.text, pred: c.pred, sortBy: c.sortBy, page: c.page, fields: c.fields, ids: 4})
	}
	rep.Count("query_texts", int64(len(cases)))
	type famKey struct {
		key string
		ids int
	}
	fams := map[famKey][]cse{}
	for _, c := range cases {
		k := famKey{familyKey(c.fields), c.ids}
		fams[k] = append(fams[k], c)
	}
	var wg sync.WaitGroup
	jobs := make(chan famKey)
	for wk := 0; wk < runtime.NumCPU(); wk++ {
		wg.Add(1)
		go func() {
			defer wg.Done()
			for k := range jobs {
				w := newQWorld()
				w.open()
				var objs []*c19Obj
				ost := newObjStore(&objs)
				ids := []string{"e1", "e2", "e3", "e4"}[:k.ids]
				var fields []string
				if k.key != "" {
					fields = strings.Split(k.key, "+")
				}
				doms := map[string][]rm.Val{}
				for _, f := range fields {
					d := qDomains[f]
					if k.ids == 4 {
						d = c02Domains[f]
						if len(fields) >= 2 {
							d = d[:2]
						}
					}
					doms[f] = d
				}
				n := len(ids) * len(fields)
				profiles := len(fields) >= 3
				if profiles {
					n = len(ids) // whole-row profiles, as in C02
				}
				idx := make([]int, n)
				for !rep.TooMany() {
					ds := newQDS()
					objs = objs[:0]
					var lb strings.Builder
					for ei, id := range ids {
						e := &rm.Ent{Id: id, F: map[string]rm.Val{}, Sets: map[string][]string{}, Fk: map[string]*string{}, Tags: map[string]rm.Val{}}
						fmt.Fprintf(&lb, "%s{", id)
						for fi, f := range fields {
							if profiles {
								switch idx[ei] {
								case 0:
									e.F[f] = rm.Null
								case 1:
									e.F[f] = c02Domains[f][1]
								default:
									e.F[f] = c02Domains[f][1+fi%2]
								}
							} else {
								e.F[f] = doms[f][idx[ei*len(fields)+fi]]
							}
							fmt.Fprintf(&lb, "%s=%s ", f, e.F[f])
						}
						lb.WriteString("} ")
						ds.Stores["people"].Ents[id] = e
						objs = append(objs, entToObj(e))
					}
					label := lb.String()
					_ = w.db.Update(nil, func(ctx boltz.MutateContext) error {
						if err := w.materialise(ctx, ds); err != nil {
							rep.Violation("C19|materialise|"+label, err.Error(), nil)
							return errSkip
						}
						for _, c := range fams[k] {
							var matching []string
							unspec := false
							for _, id := range ids {
								t := rm.True
								if c.pred != nil {
									t = ds.Eval("people", id, c.pred)
								}
								if t == rm.Unspecified {
									unspec = true
								}
								if t == rm.True {
									matching = append(matching, id)
								}
							}
							if unspec {
								continue
							}
							skip, limit := c.page.ref()
							want, total := ds.SortPage("people", matching, c.sortBy, skip, limit)
							rep.Count("evaluations", 1)
							rep.Count("compared_pairs", 1)
							var got []string
							var count int64
							var err error
							var pan interface{}
							func() {
								defer func() { pan = recover() }()
								var res []*c19Obj
								res, count, err = ost.QueryEntities(c.text)
								for _, o := range res {
									got = append(got, o.id)
								}
							}()
							// the same through a query parsed once and used twice (QueryEntitiesC on a re-used query)
							if pan == nil && err == nil {
								func() {
									defer func() {
										if r := recover(); r != nil {
											rep.Violation("C19|object-store-error|QueryEntitiesC|"+c.text, fmt.Sprintf("QueryEntitiesC(%q) on %s panicked: %v", c.text, label, r), map[string]interface{}{"query": c.text, "dataset": label})
										}
									}()
									q, perr := ast.Parse(ost, c.text)
									if perr != nil {
										rep.Violation("C19|object-store-error|QueryEntitiesC|"+c.text, fmt.Sprintf("ast.Parse(objectStore, %q) failed although QueryEntities accepted it: %v", c.text, perr), map[string]interface{}{"query": c.text})
										return
									}
									for round := 1; round <= 2; round++ {
										res, cnt, qerr := ost.QueryEntitiesC(q)
										var ids []string
										for _, o := range res {
											ids = append(ids, o.id)
										}
										if qerr != nil || strings.Join(ids, ",") != strings.Join(got, ",") || cnt != count {
											rep.Violation("C19|object-store-reused-query-differs|"+c.text, fmt.Sprintf("QueryEntitiesC(%q) use #%d on %s = %v count=%d err=%v; QueryEntities gave %v count=%d", c.text, round, label, ids, cnt, qerr, got, count), map[string]interface{}{"query": c.text, "dataset": label})
											break
										}
									}
								}()
							}
							bIds, bCount, bErr := w.people.QueryIds(ctx.Tx(), c.text)
							switch {
							case pan != nil || err != nil:
								rep.Violation("C19|object-store-error|"+c.text, fmt.Sprintf("ObjectStore.QueryEntities(%q) on %s: err=%v panic=%v", c.text, label, err, pan), map[string]interface{}{"query": c.text, "dataset": label})
							case strings.Join(got, ",") != strings.Join(want, ",") || count != total:
								rep.Violation("C19|object-store-differs-from-reference|"+c.text, fmt.Sprintf("ObjectStore.QueryEntities(%q) on %s = %v count=%d; reference %v count=%d; bolt store %v count=%d err=%v", c.text, label, got, count, want, total, bIds, bCount, bErr), map[string]interface{}{"query": c.text, "dataset": label})
							case bErr != nil || strings.Join(got, ",") != strings.Join(bIds, ",") || count != bCount:
								rep.Violation("C19|object-store-differs-from-bolt|"+c.text, fmt.Sprintf("ObjectStore.QueryEntities(%q) on %s = %v count=%d; bolt store %v count=%d err=%v", c.text, label, got, count, bIds, bCount, bErr), map[string]interface{}{"query": c.text, "dataset": label})
							}
							rep.Outcome(fmt.Sprintf("page-size-%d", len(want)))
						}
						return errSkip
					})
					kk := n - 1
					for kk >= 0 {
						limit := 3
						if !profiles {
							limit = len(doms[fields[kk%len(fields)]])
						}
						idx[kk]++
						if idx[kk] < limit {
							break
						}
						idx[kk] = 0
						kk--
					}
					if kk < 0 {
						break
					}
				}
				if len(fams[k]) > 0 {
					rep.Sample(map[string]interface{}{"family": k.key, "entities": k.ids, "query": fams[k][len(fams[k])/2].text})
				}
				w.close()
			}
		}()
	}
	for k := range fams {
		jobs <- k
	}
	close(jobs)
	wg.Wait()
	boundaryPass(rep, "C19", true, true, true)
	rep.Set("evaluations", rep.Get("evaluations"))
	rep.Set("distinct_nontrivial", int(rep.Get("compared_pairs")))
	return rep.Finish()
}
