package checks

import (
	"fmt"
	"strings"

	"github.com/openziti/storage/boltz"
	"go.etcd.io/bbolt"
	"verif/dump"
	"verif/explore"
	"verif/report"
)

// C06 — a committed delete leaves no trace of the entity's id.
//
// Every reachable state of the kitchen-sink schema (bounded depth) is extended by every delete.
// After each accepted delete: (i) boltz.ValidateDeleted, (ii) own byte-level scan of the whole
// image for the id (bucket names, keys, values, typed keys), (iii) the image equals the reference
// image in which the id never existed with respect to everything that referred to it; since
// re-creation operations are part of the alphabet, "the id can be created again and behaves as if
// it had never existed" is the ordinary model comparison on the successor states.
func C06(tier string) int {
	rep := report.New("C06", tier, "model_checking")
	rep.Assume("bbolt transactions are atomic and isolated (trusted base)")
	rep.Assume("ids are '#'-prefixed tokens that are not substrings of any other stored token, so a byte-level search is sound")
	rep.Set("rule", "BFS over kitchen-sink schema (unique+set+fk index as referrer and target, cascade referrer, link + ref-counted link, plain + extended child); every state x every delete; oracle = ValidateDeleted + byte scan + complete image vs reference model")
	k := newKitchen("all features", kFeat{orgs: true, places: true, rc: true, pets: true, maxCount: 2})
	cfg := explore.Config{Programs: explore.SingleOps(len(k.Ops()))}
	if tier == "quick" {
		cfg.MaxDepth = 5
		cfg.MaxTrans = 3_000_000
	} else {
		cfg.MaxTrans = 30_000_000
		cfg.MaxStates = 120_000
	}
	cfg.PerTransition = c06Oracle(rep, k)
	runE1(rep, k, cfg)

	// the delete in the same transaction as an earlier operation (what it has to remove is then partly uncommitted)
	k2 := newKitchen("all features; any operation, then a delete, in one transaction", kFeat{orgs: true, places: true, rc: true, pets: true, maxCount: 2})
	progs := explore.SingleOps(len(k2.Ops()))
	for a := range k2.Ops() {
		for d := range k2.Ops() {
			if k2.opInfo[d].kind == "delete" {
				progs = append(progs, []int{a, d})
			}
		}
	}
	// a failed (ignored) delete of an id, then the id is created and deleted in the same transaction
	for dip, dop := range k2.Ops() {
		if !strings.HasPrefix(dop.Name, "deleteIgnoringNotFound@") {
			continue
		}
		id := k2.opInfo[dip].id
		for c := range k2.Ops() {
			if k2.opInfo[c].kind != "create" || k2.opInfo[c].id != id {
				continue
			}
			for d := range k2.Ops() {
				if k2.opInfo[d].kind == "delete" && k2.opInfo[d].id == id {
					progs = append(progs, []int{dip, c, d})
				}
			}
		}
	}
	cfg2 := explore.Config{Programs: progs, MaxDepth: 3, MaxTrans: 3_000_000, SkipRejectedPrefix: true, PerTransition: c06Oracle(rep, k2)}
	if tier != "quick" {
		cfg2.MaxDepth, cfg2.MaxTrans = 4, 20_000_000
	}
	runE1(rep, k2, cfg2)

	// constraints and link collections owned by the child stores themselves, with the extended child store
	// (which claims every parent entity) registered before and after the plain one
	for _, extFirst := range []bool{true, false} {
		kc := newKitchen(fmt.Sprintf("child-store indexes and link collection, extended registered first=%v", extFirst), kFeat{childIdx: true, places: true, childLinks: true, extFirst: extFirst})
		cfgc := explore.Config{Programs: explore.SingleOps(len(kc.Ops())), PerTransition: c06Oracle(rep, kc), MaxDepth: 3}
		if tier != "quick" {
			cfgc.MaxDepth = 5
		}
		runE1(rep, kc, cfgc)
	}

	// link collections to closure (two entities per side): <any link operation>; <delete> in one
	// transaction - the deleted entity's link buckets were then written earlier in the same transaction
	for _, ls := range []*linkScenario{
		newLinkScenario("links 2x2, (op; delete) per tx", []string{"#a1", "#a2"}, []string{"#b1", "#b2"}, true, false, 0),
		newLinkScenario("ref-counted 2x2 counts<=2, (op; delete) per tx", []string{"#a1", "#a2"}, []string{"#b1", "#b2"}, false, true, 2),
		// stores whose only link collection is the ref-counted one
		newRcOnlyScenario("ref-counted 2x2 counts<=2, no plain link collection, (op; delete) per tx", []string{"#a1", "#a2"}, []string{"#b1", "#b2"}, 2),
		// ids one of which is a prefix of the other (the byte scan then only applies to the longer id)
		newLinkScenario("links 2x2, prefix-related ids, (op; delete) per tx", []string{"#a1", "#a1x"}, []string{"#b1", "#b1x"}, true, false, 0),
	} {
		ls := ls
		lprogs := explore.SingleOps(len(ls.Ops()))
		for a := range ls.Ops() {
			for d, dop := range ls.Ops() {
				if strings.HasPrefix(dop.Name, "delete") {
					lprogs = append(lprogs, []int{a, d})
				}
			}
		}
		runE1(rep, ls, explore.Config{Programs: lprogs, SkipRejectedPrefix: true, PerTransition: func(tx *bbolt.Tx, pre *explore.State, program []int, post *dump.Tree, m explore.Model) error {
			last := ls.Ops()[program[len(program)-1]].Name
			if !strings.HasPrefix(last, "delete") {
				return nil
			}
			id := last[strings.Index(last, "(")+1 : len(last)-1]
			rep.Count("deletes_checked", 1)
			if err := boltz.ValidateDeleted(tx, id); err != nil {
				return fmt.Errorf("ValidateDeleted(%s): %v", id, err)
			}
			prefixOfAnother := false
			for _, other := range append(append([]string{}, ls.aIds...), ls.bIds...) {
				prefixOfAnother = prefixOfAnother || (other != id && strings.HasPrefix(other, id))
			}
			if where := post.ContainsBytes([]byte(id)); len(where) > 0 && !prefixOfAnother {
				return fmt.Errorf("id %s still occurs after delete: %v", id, where)
			}
			return nil
		}})
	}
	// cascade delete with three referrers, the target deleted in the same transaction as an earlier change of
	// the referring store: neither the target nor a cascaded referrer may leave a trace
	// ... and the self-referential wirings (an entity referring to itself and to its peers), restrict and cascade
	for _, wiring := range []fkWiring{fkIdxCascade, fkcCascadeNullable, fkSelfNone, fkSelfIdxNullable, fkSelfCascade, fkSelfIdxCascade} {
		owners, del := []string{"#o1", "#o2"}, "deleteOwner("
		if wiring.self() {
			owners, del = nil, "deleteWidget("
		}
		fs := newFkScenario(wiring, owners, []string{"#w1", "#w2", "#w3"}, "3 referrers, (op; delete of the target) per tx, no-trace oracle")
		if wiring == fkSelfCascade || wiring == fkSelfIdxCascade {
			fs.cycleCrash = probeCycleCrashes() // an unbounded recursion over a reference cycle must not kill the checker
		}
		var fprogs [][]int
		for i, a := range fs.Ops() {
			fprogs = append(fprogs, []int{i})
			for j, b := range fs.Ops() {
				if strings.HasPrefix(b.Name, del) && !strings.HasPrefix(a.Name, del) {
					fprogs = append(fprogs, []int{i, j})
				}
			}
		}
		runE1(rep, fs, explore.Config{Programs: fprogs, SkipRejectedPrefix: true, PerTransition: func(tx *bbolt.Tx, pre *explore.State, program []int, post *dump.Tree, m explore.Model) error {
			last := fs.Ops()[program[len(program)-1]].Name
			if !strings.HasPrefix(last, "deleteOwner(") && !strings.HasPrefix(last, "deleteWidget(") {
				return nil
			}
			id := strings.Trim(last[strings.Index(last, "(")+1:len(last)-1], "\"")
			rep.Count("deletes_checked", 1)
			if err := boltz.ValidateDeleted(tx, id); err != nil {
				return fmt.Errorf("ValidateDeleted(%s): %v", id, err)
			}
			if where := post.ContainsBytes([]byte(id)); len(where) > 0 {
				return fmt.Errorf("id %s still occurs after delete: %v", id, where)
			}
			return nil
		}})
	}
	return rep.Finish()
}

func c06Oracle(rep *report.Report, k *kitchen) func(tx *bbolt.Tx, pre *explore.State, program []int, post *dump.Tree, m explore.Model) error {
	return func(tx *bbolt.Tx, pre *explore.State, program []int, post *dump.Tree, m explore.Model) error {
		for i, o := range program {
			info := k.opInfo[o]
			if i != len(program)-1 {
				continue // only the last operation's id is certainly gone at the end of the transaction
			}
			if info.kind != "delete" {
				continue
			}
			rep.Count("deletes_checked", 1)
			if err := boltz.ValidateDeleted(tx, info.id); err != nil {
				return fmt.Errorf("ValidateDeleted(%s): %v", info.id, err)
			}
			if where := post.ContainsBytes([]byte(info.id)); len(where) > 0 {
				return fmt.Errorf("id %s still occurs after delete: %v", info.id, where)
			}
		}
		return nil
	}
}
