package checks

import (
	"bytes"
	"fmt"
	"sort"
	"strings"

	"github.com/openziti/foundation/v2/errorz"
	"github.com/openziti/storage/ast"
	"github.com/openziti/storage/boltz"
	"go.etcd.io/bbolt"
	"verif/dump"
	"verif/explore"
	"verif/report"
	"verif/world"
)

// ---------------------------------------------------------------------------------------------
// C03 — unique and set indexes mirror entity state; uniqueness is enforced.
// Scenario S_idx: one store with a non-nullable unique index on name, a nullable unique index on
// alias and a set index on roles.

type idxItem struct {
	name  string
	alias *string
	roles []string // sorted, unique
}

type idxModel struct {
	items map[string]*idxItem
}

func (m *idxModel) Clone() explore.Model {
	n := &idxModel{items: map[string]*idxItem{}}
	for k, v := range m.items {
		c := *v
		c.roles = append([]string{}, v.roles...)
		n.items[k] = &c
	}
	return n
}

func (m *idxModel) Render() *dump.Tree {
	t := dump.NewTree()
	for id, it := range m.items {
		b := t.Ensure("root", "items", id)
		b.Values["name"] = world.EncString(it.name)
		if it.alias == nil {
			b.Values["alias"] = world.EncNil()
		} else {
			b.Values["alias"] = world.EncString(*it.alias)
		}
		for _, r := range it.roles {
			t.Ensure("root", "items", id, "roles").Values[world.TypedKey(r)] = []byte{}
			t.Ensure("root", "indexes", "items", "roles", r).Values[world.TypedKey(id)] = []byte{}
		}
		if it.name != "" {
			t.Ensure("root", "indexes", "items", "name").Values[it.name] = []byte(id)
		}
		if it.alias != nil && *it.alias != "" {
			t.Ensure("root", "indexes", "items", "alias").Values[*it.alias] = []byte(id)
		}
	}
	return t
}

type idxScenario struct {
	base      []string // bucket path of the store below the database root (default: just "root")
	store     *world.Store
	nameIdx   boltz.ReadIndex
	aliasIdx  boltz.ReadIndex
	rolesIdx  boltz.SetReadIndex
	ids       []string
	names     []string
	aliases   []*string
	roleSets  [][]string
	roleAtoms []string
	ops       []explore.Op
}

func newIdxScenario(ids []string) *idxScenario { return newIdxScenarioAt(ids, []string{"root"}) }

// newIdxScenarioAt places the store below a base path of any depth (the reference image is always
// rendered below "root"; Normalize re-roots the database image accordingly).
func newIdxScenarioAt(ids []string, base []string) *idxScenario {
	sc := &idxScenario{ids: ids, base: base}
	sc.store = world.NewStore(&world.Spec{
		EntityType: "items",
		BasePath:   base,
		Fields: []world.Field{
			{Name: "name", Kind: world.KString},
			{Name: "alias", Kind: world.KStringP},
			{Name: "roles", Kind: world.KStringList},
		},
	})
	syms := sc.store.AddScalarSymbols()
	sc.nameIdx = sc.store.AddUniqueIndex(syms["name"])
	sc.aliasIdx = sc.store.AddNullableUniqueIndex(syms["alias"])
	rolesSym := sc.store.AddSetSymbol("roles", ast.NodeTypeString)
	sc.rolesIdx = sc.store.AddSetIndex(rolesSym)

	sc.names = []string{"A", "AB", ""} // one name is a prefix of the other on purpose
	if len(ids) >= 3 {
		sc.names = []string{"A", "AB", "B", ""} // three entities can only coexist with three non-empty unique values
	}
	sc.aliases = []*string{nil, world.StrP("X"), world.StrP("")}
	sc.roleAtoms = []string{"r", "rs"}
	sc.roleSets = [][]string{nil, {"r"}, {"rs"}, {"r", "rs"}}
	sc.buildOps()
	return sc
}

// newIdxScenarioCase: values that differ in letter case only (an index is keyed by the exact bytes).
func newIdxScenarioCase(ids []string) *idxScenario {
	sc := newIdxScenarioAt(ids, []string{"root"})
	sc.names = []string{"A", "a", ""}
	sc.aliases = []*string{nil, world.StrP("X"), world.StrP("x")}
	sc.roleAtoms = []string{"R", "r"}
	sc.roleSets = [][]string{nil, {"R"}, {"r"}, {"R", "r"}}
	sc.ops = nil
	sc.buildOps()
	return sc
}

func (sc *idxScenario) Name() string { return fmt.Sprintf("S_idx[%d ids]", len(sc.ids)) }

func (sc *idxScenario) InitDb(db *boltz.DbImpl) error {
	return db.Update(nil, func(ctx boltz.MutateContext) error {
		h := &errorz.ErrorHolderImpl{}
		sc.store.InitializeIndexes(ctx.Tx(), h)
		return h.GetError()
	})
}

func (sc *idxScenario) NewModel() explore.Model { return &idxModel{items: map[string]*idxItem{}} }
func (sc *idxScenario) Ops() []explore.Op       { return sc.ops }
func (sc *idxScenario) Context(_ []int) boltz.MutateContext {
	return explore.OrdinaryContext()
}

func aliasStr(a *string) string {
	if a == nil {
		return "null"
	}
	return fmt.Sprintf("%q", *a)
}

func (sc *idxScenario) rec(id, name string, alias *string, roles []string) *world.Rec {
	r := world.NewRec("items", id).With("name", name).With("roles", append([]string{}, roles...))
	if alias == nil {
		r.With("alias", nil)
	} else {
		r.With("alias", *alias)
	}
	return r
}

// checkNew validates the index rules for entity id holding (name, alias); returns acceptable error classes or nil.
func (m *idxModel) checkNew(id string, nameChanged bool, name string, aliasChanged bool, alias *string) []string {
	var errs []string
	if nameChanged {
		if name == "" {
			errs = append(errs, "empty")
		} else {
			for oid, o := range m.items {
				if oid != id && o.name == name {
					errs = append(errs, "dup")
				}
			}
		}
	}
	if aliasChanged && alias != nil && *alias != "" {
		for oid, o := range m.items {
			if oid != id && o.alias != nil && *o.alias == *alias {
				errs = append(errs, "dup")
			}
		}
	}
	return errs
}

func (sc *idxScenario) buildOps() {
	for _, id := range sc.ids {
		for _, name := range sc.names {
			for _, alias := range sc.aliases {
				for _, roles := range sc.roleSets {
					id, name, alias, roles := id, name, alias, roles
					desc := fmt.Sprintf("(%s,name=%q,alias=%s,roles=%v)", id, name, aliasStr(alias), roles)
					sc.ops = append(sc.ops, explore.Op{
						Name: "create" + desc,
						Do: func(ctx boltz.MutateContext) error {
							return sc.store.Create(ctx, sc.rec(id, name, alias, roles))
						},
						Apply: func(mm explore.Model) []string {
							m := mm.(*idxModel)
							if _, ok := m.items[id]; ok {
								return []string{"exists"}
							}
							if errs := m.checkNew(id, true, name, true, alias); errs != nil {
								return errs
							}
							m.items[id] = &idxItem{name: name, alias: alias, roles: world.Dedup(roles)}
							return []string{"ok"}
						},
					})
					// update with every field-checker subset; nil checker = full update
					for mask := -1; mask < 8; mask++ {
						mask := mask
						var checker boltz.FieldChecker
						label := "update"
						fn, fa, fr := true, true, true
						if mask >= 0 {
							fn, fa, fr = mask&1 != 0, mask&2 != 0, mask&4 != 0
							mc := boltz.MapFieldChecker{}
							var sel []string
							if fn {
								mc["name"] = struct{}{}
								sel = append(sel, "name")
							}
							if fa {
								mc["alias"] = struct{}{}
								sel = append(sel, "alias")
							}
							if fr {
								mc["roles"] = struct{}{}
								sel = append(sel, "roles")
							}
							checker = mc
							label = "patch[" + strings.Join(sel, ",") + "]"
						}
						// skip patches whose unselected field values are not the canonical first value (equivalent programs)
						if mask >= 0 {
							if (!fn && name != sc.names[0]) || (!fa && alias != nil) || (!fr && roles != nil) {
								continue
							}
						}
						sc.ops = append(sc.ops, explore.Op{
							Name: label + desc,
							Do: func(ctx boltz.MutateContext) error {
								return sc.store.Update(ctx, sc.rec(id, name, alias, roles), checker)
							},
							Apply: func(mm explore.Model) []string {
								m := mm.(*idxModel)
								cur, ok := m.items[id]
								if !ok {
									return []string{"notfound"}
								}
								nn, na, nr := cur.name, cur.alias, cur.roles
								if fn {
									nn = name
								}
								if fa {
									na = alias
								}
								if fr {
									nr = world.Dedup(roles)
								}
								nameChanged := nn != cur.name
								aliasChanged := aliasStr(na) != aliasStr(cur.alias)
								if errs := m.checkNew(id, nameChanged, nn, aliasChanged, na); errs != nil {
									return errs
								}
								// an unchanged empty value in the non-nullable index is not re-validated (documented: only changes are checked)
								m.items[id] = &idxItem{name: nn, alias: na, roles: nr}
								return []string{"ok"}
							},
						})
					}
				}
			}
		}
		id := id
		sc.ops = append(sc.ops, explore.Op{
			Name: "delete(" + id + ")",
			Do:   func(ctx boltz.MutateContext) error { return sc.store.DeleteById(ctx, id) },
			Apply: func(mm explore.Model) []string {
				m := mm.(*idxModel)
				if _, ok := m.items[id]; !ok {
					return []string{"notfound"}
				}
				delete(m.items, id)
				return []string{"ok"}
			},
		})
	}
}

func classifyCommon(err error) string {
	if err == nil {
		return "ok"
	}
	if boltz.IsUniqueIndexDuplicateError(err) {
		return "dup"
	}
	if boltz.IsReferenceExistsError(err) {
		return "refexists"
	}
	if boltz.IsErrNotFoundErr(err) {
		return "notfound"
	}
	msg := err.Error()
	switch {
	case strings.HasPrefix(msg, "verif-cycle-recursion"):
		return "cycle-recursion"
	case strings.Contains(msg, "does not allow null or empty values"):
		return "empty"
	case strings.Contains(msg, "already exists with id"):
		return "exists"
	case strings.Contains(msg, "non-system context"):
		return "system"
	case strings.Contains(msg, "not found"):
		return "notfound"
	}
	return "other:" + msg
}

func (sc *idxScenario) Classify(err error) string { return classifyCommon(err) }

func (sc *idxScenario) Normalize(t *dump.Tree) *dump.Tree {
	if len(sc.base) > 1 {
		// re-root: the sub-tree at the base path becomes "root"; anything else below the database root stays visible
		nt := t.Clone()
		sub := nt.Get(sc.base...)
		if parent := nt.Get(sc.base[:len(sc.base)-1]...); parent != nil {
			delete(parent.Buckets, sc.base[len(sc.base)-1])
		}
		for i := len(sc.base) - 2; i >= 1; i-- { // drop the now empty intermediate buckets
			if b := nt.Get(sc.base[:i+1]...); b != nil && b.Empty() {
				delete(nt.Get(sc.base[:i]...).Buckets, sc.base[i])
			}
		}
		if sub != nil {
			root := nt.Ensure("root")
			for k, v := range sub.Buckets {
				root.Buckets[k] = v
			}
			for k, v := range sub.Values {
				root.Values[k] = v
			}
		}
		t = nt
	}
	return t.PruneEmpty(func(path []string) bool {
		// an empty key bucket in the set index is exactly what the property forbids: keep it visible
		return len(path) == 5 && path[1] == "indexes" && path[3] == "roles"
	})
}

func (sc *idxScenario) Invariant(tx *bbolt.Tx, mm explore.Model) error {
	m := mm.(*idxModel)
	// unique index reads
	for _, name := range []string{"A", "AB", "B", "C"} {
		want := ""
		for id, it := range m.items {
			if it.name == name {
				want = id
			}
		}
		if got := string(sc.nameIdx.Read(tx, []byte(name))); got != want {
			return fmt.Errorf("ReadIndex(name).Read(%q) = %q, model says %q", name, got, want)
		}
	}
	for _, alias := range []string{"X", "Y"} {
		want := ""
		for id, it := range m.items {
			if it.alias != nil && *it.alias == alias {
				want = id
			}
		}
		if got := string(sc.aliasIdx.Read(tx, []byte(alias))); got != want {
			return fmt.Errorf("ReadIndex(alias).Read(%q) = %q, model says %q", alias, got, want)
		}
	}
	// set index reads
	var wantKeys []string
	for _, role := range append(append([]string{}, sc.roleAtoms...), "zz") {
		var want []string
		for id, it := range m.items {
			for _, r := range it.roles {
				if r == role {
					want = append(want, id)
				}
			}
		}
		sort.Strings(want)
		if len(want) > 0 {
			wantKeys = append(wantKeys, role)
		}
		var got []string
		sc.rolesIdx.Read(tx, []byte(role), func(val []byte) { got = append(got, string(val)) })
		if strings.Join(got, ",") != strings.Join(want, ",") {
			return fmt.Errorf("SetReadIndex.Read(%q) = %v, model says %v", role, got, want)
		}
		var viaCursor []string
		for c := sc.rolesIdx.OpenValueCursor(tx, []byte(role), true); c.IsValid(); c.Next() {
			viaCursor = append(viaCursor, string(c.Current()))
		}
		if strings.Join(viaCursor, ",") != strings.Join(want, ",") {
			return fmt.Errorf("SetReadIndex.OpenValueCursor(%q) = %q, model says %v", role, viaCursor, want)
		}
	}
	// index-driven lookups over several values: all-of (in index order of the first value) and any-of (as a set)
	for _, vals := range [][]string{{}, {"r"}, {"rs"}, {"zz"}, {"r", "rs"}, {"rs", "r"}, {"r", "r"}, {"r", "zz"}, {"zz", "r"}, {"zz", "yy"},
		{"r", "rs", "r"}, {"rs", "rs", "r"}, {"r", "r", "rs"}, {"rs", "r", "zz"}, {"rs", "zz", "r"}} {
		var all, anyOf []string
		for id, it := range m.items {
			hasAll, hasAny := len(vals) > 0, false
			for _, v := range vals {
				found := false
				for _, r := range it.roles {
					if r == v {
						found = true
					}
				}
				hasAll = hasAll && found
				hasAny = hasAny || found
			}
			if hasAll {
				all = append(all, id)
			}
			if hasAny {
				anyOf = append(anyOf, id)
			}
		}
		sort.Strings(all)
		sort.Strings(anyOf)
		if got := sc.store.FindMatching(tx, sc.rolesIdx, vals); strings.Join(got, ",") != strings.Join(all, ",") {
			return fmt.Errorf("FindMatching(roles, %q) = %v, model says %v", vals, got, all)
		}
		gotAny := append([]string{}, sc.store.FindMatchingAnyOf(tx, sc.rolesIdx, vals)...)
		sort.Strings(gotAny)
		if strings.Join(gotAny, ",") != strings.Join(anyOf, ",") {
			return fmt.Errorf("FindMatchingAnyOf(roles, %q) = %v (sorted), model says %v", vals, gotAny, anyOf)
		}
	}
	var gotKeys []string
	sc.rolesIdx.ReadKeys(tx, func(val []byte) { gotKeys = append(gotKeys, string(val)) })
	if strings.Join(gotKeys, ",") != strings.Join(wantKeys, ",") {
		return fmt.Errorf("SetReadIndex.ReadKeys = %v, model says %v", gotKeys, wantKeys)
	}
	// entity reads
	ids, _, err := sc.store.QueryIds(tx, "true")
	if err != nil {
		return err
	}
	var wantIds []string
	for id := range m.items {
		wantIds = append(wantIds, id)
	}
	sort.Strings(wantIds)
	if strings.Join(ids, ",") != strings.Join(wantIds, ",") {
		return fmt.Errorf("QueryIds(true) = %v, model says %v", ids, wantIds)
	}
	for id, it := range m.items {
		e, found, err := sc.store.FindById(tx, id)
		if err != nil || !found {
			return fmt.Errorf("FindById(%s): found=%v err=%v", id, found, err)
		}
		gotAlias := "null"
		if e.F["alias"] != nil {
			gotAlias = fmt.Sprintf("%q", e.F["alias"].(string))
		}
		gr, _ := e.F["roles"].([]string)
		if e.F["name"] != it.name || gotAlias != aliasStr(it.alias) || strings.Join(gr, ",") != strings.Join(it.roles, ",") {
			return fmt.Errorf("FindById(%s) = %v, model says name=%q alias=%s roles=%v", id, e.F, it.name, aliasStr(it.alias), it.roles)
		}
	}
	return nil
}

var _ = bytes.Equal

func runE1(rep *report.Report, sc explore.Scenario, cfg explore.Config) *explore.Explorer {
	ex := &explore.Explorer{Sc: sc, Cfg: cfg, Rep: rep}
	ex.Run()
	return ex
}

func C03(tier string) int {
	rep := report.New("C03", tier, "model_checking")
	rep.Assume("bbolt transactions are atomic and isolated (trusted base)")
	rep.Assume("universe: ids e1,e1x(,e2) and values A,AB / r,rs chosen so that one is a prefix of the other; alias in {null,X,\"\"}")
	rep.Set("rule", "BFS over canonical database images; every state x every transaction program; oracle = complete image rendered from reference model + API reads")

	sc := newIdxScenario([]string{"e1", "e1x"})
	n := len(sc.Ops())
	rep.Set("alphabet_size_2ids", n)
	if tier == "quick" {
		runE1(rep, sc, explore.Config{Programs: explore.SingleOps(n)})
		// several operations per transaction (index maintenance must not rely on committed-only information)
		scq := newIdxScenario([]string{"e1", "e1x"})
		runE1(rep, &renamed{Scenario: scq, name: "S_idx[2 ids, 2-op tx core]"}, explore.Config{Programs: pairsCore(scq.Ops()), SkipRejectedPrefix: true})
	} else {
		runE1(rep, sc, explore.Config{Programs: explore.SingleOps(n)})
		// two operations per transaction (accepted and rejected in either position)
		sc2 := newIdxScenario([]string{"e1", "e1x"})
		runE1(rep, &renamed{Scenario: sc2, name: "S_idx[2 ids, 2-op tx]"}, explore.Config{Programs: pairsSubset(sc2.Ops()), SkipRejectedPrefix: true})
		sc3 := newIdxScenario([]string{"e1", "e1x", "e2"})
		runE1(rep, sc3, explore.Config{Programs: explore.SingleOps(len(sc3.Ops())), MaxTrans: 6_000_000})
	}
	// values differing in letter case only
	scc := newIdxScenarioCase([]string{"e1", "e1x"})
	runE1(rep, &renamed{Scenario: scc, name: "S_idx[2 ids, values differing in letter case only]"}, explore.Config{Programs: explore.SingleOps(len(scc.Ops()))})
	// the store below a base path of three and four segments (index paths are derived from the base path)
	for _, base := range [][]string{{"root", "dept", "unit"}, append(make([]string, 0, 8), "root", "a", "b", "c")} {
		scd := newIdxScenarioAt([]string{"e1", "e1x"}, base)
		runE1(rep, &renamed{Scenario: scd, name: fmt.Sprintf("S_idx[2 ids, base path of %d segments]", len(base))}, explore.Config{Programs: explore.SingleOps(len(scd.Ops()))})
	}
	// the same indexes under parent/child layering: entities created, updated and deleted through a plain and an
	// extended child store (the parent's constraints then run through chained indexing contexts)
	kc := newKitchen("unique+set index of a parent store used through child stores", kFeat{})
	runE1(rep, kc, explore.Config{Programs: explore.SingleOps(len(kc.Ops()))})
	// unique and set indexes owned by the child stores themselves, with the extended child (which claims every
	// parent entity as its own) registered before and after the plain child
	for _, extFirst := range []bool{true, false} {
		kci := newKitchen(fmt.Sprintf("unique+set indexes owned by child stores, extended registered first=%v", extFirst), kFeat{childIdx: true, extFirst: extFirst})
		cfg := explore.Config{Programs: explore.SingleOps(len(kci.Ops()))}
		if tier == "quick" {
			cfg.MaxDepth = 4
		}
		runE1(rep, kci, cfg)
	}
	// three entities alive at once (three holders of one set value, an entry in the middle of an index
	// bucket): a restricted view of the 3-id alphabet - every id keeps its own name, alias stays null -
	// explored to closure with one and two operations per transaction
	sc3v := newIdxScenario([]string{"e1", "e1x", "e2"})
	own := map[string]string{"e1": `"A"`, "e1x": `"AB"`, "e2": `"B"`}
	var view []int
	for i, o := range sc3v.Ops() {
		n := o.Name
		if strings.HasPrefix(n, "delete(") {
			view = append(view, i)
			continue
		}
		if !(strings.HasPrefix(n, "create(") || strings.HasPrefix(n, "update(") || strings.HasPrefix(n, "patch[roles](")) || !strings.Contains(n, "alias=null") {
			continue
		}
		id := n[strings.Index(n, "(")+1 : strings.Index(n, ",")]
		if strings.Contains(n, "name="+own[id]+",") || (strings.HasPrefix(n, "patch[roles](") && strings.Contains(n, `name="A",`)) {
			view = append(view, i)
		}
	}
	var vprogs [][]int
	for _, a := range view {
		vprogs = append(vprogs, []int{a})
		for _, b := range view {
			vprogs = append(vprogs, []int{a, b})
		}
	}
	rep.Set("three_entity_view_alphabet", len(view))
	runE1(rep, &renamed{Scenario: sc3v, name: "S_idx[3 ids alive at once, restricted view, 1-2 ops per tx]"}, explore.Config{Programs: vprogs, SkipRejectedPrefix: true})
	return rep.Finish()
}

// renamed gives a scenario a different display name.
type renamed struct {
	explore.Scenario
	name string
}

func (r *renamed) Name() string { return r.name }

// pairsSubset: all single ops plus all ordered pairs of the non-patch operations and a
// representative patch set (full pair closure over ~450 ops would be 200k programs per state).
func pairsSubset(ops []explore.Op) [][]int {
	var core []int
	for i, o := range ops {
		if strings.HasPrefix(o.Name, "patch[") && !strings.HasPrefix(o.Name, "patch[name]") && !strings.HasPrefix(o.Name, "patch[roles]") && !strings.HasPrefix(o.Name, "patch[]") {
			continue
		}
		core = append(core, i)
	}
	out := explore.SingleOps(len(ops))
	for _, i := range core {
		for _, j := range core {
			out = append(out, []int{i, j})
		}
	}
	return out
}

// pairsCore: all ordered pairs over creates, full updates that keep alias null, and deletes.
func pairsCore(ops []explore.Op) [][]int {
	var core []int
	for i, o := range ops {
		n := o.Name
		if strings.HasPrefix(n, "delete(") || ((strings.HasPrefix(n, "create(") || strings.HasPrefix(n, "update(")) && strings.Contains(n, "alias=null") && !strings.Contains(n, `name=""`)) {
			core = append(core, i)
		}
	}
	var out [][]int
	for _, a := range core {
		for _, b := range core {
			out = append(out, []int{a, b})
		}
	}
	return out
}
