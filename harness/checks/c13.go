package checks

import (
	"bytes"
	"fmt"
	"math"
	"sort"
	"strings"
	"time"

	"github.com/openziti/storage/boltz"
	"go.etcd.io/bbolt"
	"verif/dump"
	"verif/explore"
	"verif/report"
)

// ---------------------------------------------------------------------------------------------
// C13 — stored values and compound keys round-trip.

type c13Db struct {
	dir string
	db  *boltz.DbImpl
}

func newC13Db() *c13Db {
	d := &c13Db{dir: explore.TmpDir("c13")}
	db, err := boltz.Open(d.dir+"/c13.db", "root")
	if err != nil {
		panic(err)
	}
	d.db = db
	return d
}

func (d *c13Db) close() {
	_ = d.db.Close()
	removeAll(d.dir)
}

// roundTrip writes in one committed transaction and reads back in a later one.
func (d *c13Db) roundTrip(write func(b *boltz.TypedBucket), read func(b *boltz.TypedBucket)) error {
	err := d.db.Update(nil, func(ctx boltz.MutateContext) error {
		root := boltz.GetOrCreatePath(ctx.Tx(), "root")
		b, err := root.EmptyBucket("c13")
		if err != nil {
			return err
		}
		write(b)
		return b.GetError()
	})
	if err != nil {
		return err
	}
	return d.db.View(func(tx *bbolt.Tx) error {
		b := boltz.Path(tx, "root", "c13")
		if b == nil {
			return fmt.Errorf("bucket vanished")
		}
		read(b)
		return nil
	})
}

func eqVal(want, got interface{}) bool {
	switch w := want.(type) {
	case nil:
		return got == nil
	case string:
		g, ok := got.(string)
		return ok && g == w
	case int64:
		g, ok := got.(int64)
		return ok && g == w
	case int:
		g, ok := got.(int64)
		return ok && g == int64(w)
	case int32:
		if g, ok := got.(int32); ok {
			return g == w
		}
		g, ok := got.(int64) // integers may widen
		return ok && g == int64(w)
	case float64:
		g, ok := got.(float64)
		return ok && (math.Float64bits(g) == math.Float64bits(w) || (math.IsNaN(g) && math.IsNaN(w)))
	case float32:
		g, ok := got.(float64)
		return ok && g == float64(w)
	case bool:
		g, ok := got.(bool)
		return ok && g == w
	case time.Time:
		g, ok := got.(time.Time)
		return ok && g.Equal(w)
	case map[string]interface{}:
		g, ok := got.(map[string]interface{})
		if !ok || len(g) != len(w) {
			return false
		}
		for k, v := range w {
			gv, present := g[k]
			if !present || !eqVal(v, gv) {
				return false
			}
		}
		return true
	case []interface{}:
		g, ok := got.([]interface{})
		if !ok || len(g) != len(w) {
			return false
		}
		for i := range w {
			if !eqVal(w[i], g[i]) {
				return false
			}
		}
		return true
	}
	return false
}

func descVal(v interface{}) string {
	switch w := v.(type) {
	case map[string]interface{}:
		var keys []string
		for k := range w {
			keys = append(keys, k)
		}
		sort.Strings(keys)
		var parts []string
		for _, k := range keys {
			parts = append(parts, k+":"+descVal(w[k]))
		}
		return "{" + strings.Join(parts, ",") + "}"
	case []interface{}:
		var parts []string
		for _, x := range w {
			parts = append(parts, descVal(x))
		}
		return "[" + strings.Join(parts, ",") + "]"
	case string:
		if len(w) > 12 {
			return fmt.Sprintf("string(len=%d)", len(w))
		}
		return fmt.Sprintf("%q", w)
	case nil:
		return "nil"
	case time.Time:
		return "time(" + w.Format(time.RFC3339Nano) + ")"
	}
	return fmt.Sprintf("%T(%v)", v, v)
}

func C13(tier string) int {
	rep := report.New("C13", tier, "exploration")
	thorough := tier != "quick"
	rep.Set("rule", "every typed setter/getter pair over boundary values, all string lists <= 3 over {\"\",a,b,dup}, ALL value trees of depth <= 2 (thorough: 3) over 8 leaf kinds with <= 2 children, all 2^4 field-checker subsets, all compound-key lists <= 3 over 8 element shapes (pairwise collision table); every value is read back in a LATER transaction")
	d := newC13Db()
	defer d.close()

	fail := func(kind, what, msg string) {
		rep.Violation("C13|"+kind+"|"+what, msg, map[string]interface{}{"case": what})
	}
	rt := func(kind, what string, write func(b *boltz.TypedBucket), read func(b *boltz.TypedBucket) string) {
		rep.Count("evaluations", 1)
		rep.Distinct(kind + "|" + what)
		rep.Outcome(kind)
		var problem string
		err := d.roundTrip(write, func(b *boltz.TypedBucket) { problem = read(b) })
		if err != nil {
			fail(kind, what, "round trip failed: "+err.Error())
		} else if problem != "" {
			fail(kind, what, problem)
		}
	}

	// ---- scalars
	longStr := strings.Repeat("x", 64*1024)
	for _, s := range []string{"", "a", "\x00", "a\x00b", "é", longStr, "\x05", "\x07"} {
		s := s
		rt("string", descVal(s), func(b *boltz.TypedBucket) { b.SetString("f", s, nil) }, func(b *boltz.TypedBucket) string {
			if g := b.GetString("f"); g == nil || *g != s {
				return fmt.Sprintf("SetString(%s) read back as %v", descVal(s), derefS(g))
			}
			if g := b.GetStringOrError("f"); g != s || b.HasError() {
				return "GetStringOrError disagrees"
			}
			return ""
		})
		rt("stringP", descVal(s), func(b *boltz.TypedBucket) { b.SetStringP("f", &s, nil) }, func(b *boltz.TypedBucket) string {
			if g := b.GetString("f"); g == nil || *g != s {
				return fmt.Sprintf("SetStringP(%s) read back as %v", descVal(s), derefS(g))
			}
			return ""
		})
	}
	rt("null-vs-empty", "nil string pointer", func(b *boltz.TypedBucket) { b.SetStringP("f", nil, nil); b.SetString("g", "", nil) }, func(b *boltz.TypedBucket) string {
		if g := b.GetString("f"); g != nil {
			return fmt.Sprintf("nil string pointer read back as %q", *g)
		}
		if g := b.GetString("g"); g == nil {
			return "empty string read back as null"
		}
		if g := b.GetString("never-written"); g != nil {
			return "unwritten field is not null"
		}
		return ""
	})
	for _, v := range []int64{math.MinInt64, math.MinInt32, -1, 0, 1, 255, 256, math.MaxInt32, math.MaxInt64} {
		v := v
		rt("int64", fmt.Sprint(v), func(b *boltz.TypedBucket) { b.SetInt64("f", v, nil) }, func(b *boltz.TypedBucket) string {
			if g := b.GetInt64("f"); g == nil || *g != v {
				return fmt.Sprintf("SetInt64(%d) read back as %v", v, g)
			}
			if g := b.GetInt64WithDefault("f", 42); g != v {
				return "GetInt64WithDefault disagrees"
			}
			if g := b.GetFloat64("f"); g == nil || *g != float64(v) {
				return fmt.Sprintf("int64 %d read as float64 gives %v", v, g)
			}
			return ""
		})
	}
	for _, v := range []int32{math.MinInt32, -1, 0, 1, 255, 256, math.MaxInt32} {
		v := v
		rt("int32", fmt.Sprint(v), func(b *boltz.TypedBucket) { b.SetInt32("f", v, nil) }, func(b *boltz.TypedBucket) string {
			if g := b.GetInt32("f"); g == nil || *g != v {
				return fmt.Sprintf("SetInt32(%d) read back as %v", v, g)
			}
			if g := b.GetInt64("f"); g == nil || *g != int64(v) { // widening
				return fmt.Sprintf("int32 %d read through GetInt64 gives %v", v, g)
			}
			return ""
		})
	}
	negZero := math.Copysign(0, -1)
	for _, v := range []float64{0, negZero, 1.5, -1.5, math.Inf(1), math.Inf(-1), math.NaN(), math.SmallestNonzeroFloat64, math.MaxFloat64, 1e-310} {
		v := v
		rt("float64", fmt.Sprint(v), func(b *boltz.TypedBucket) { b.SetFloat64("f", v, nil) }, func(b *boltz.TypedBucket) string {
			g := b.GetFloat64("f")
			if g == nil || !eqVal(v, *g) {
				return fmt.Sprintf("SetFloat64(%v) read back as %v", v, g)
			}
			return ""
		})
	}
	for _, v := range []bool{true, false} {
		v := v
		rt("bool", fmt.Sprint(v), func(b *boltz.TypedBucket) { b.SetBool("f", v, nil) }, func(b *boltz.TypedBucket) string {
			if g := b.GetBool("f"); g == nil || *g != v {
				return fmt.Sprintf("SetBool(%v) read back as %v", v, g)
			}
			if g := b.GetBoolWithDefault("f", !v); g != v {
				return "GetBoolWithDefault disagrees"
			}
			return ""
		})
	}
	est := time.FixedZone("EST", -5*3600)
	ist := time.FixedZone("IST", 5*3600+1800)
	for _, v := range []time.Time{time.Unix(0, 0), time.Date(1, 1, 1, 0, 0, 0, 0, time.UTC), time.Date(9999, 12, 31, 23, 59, 59, 999999999, time.UTC),
		time.Date(2020, 2, 29, 23, 30, 0, 123, est), time.Date(2020, 2, 29, 23, 30, 0, 0, ist), time.Now(), time.Unix(-1, 0).In(ist)} {
		v := v
		rt("time", v.Format(time.RFC3339Nano), func(b *boltz.TypedBucket) {
			b.SetTime("f", v, nil)
			b.SetTimeP("g", &v, nil)
			b.SetTimeP("h", nil, nil)
		}, func(b *boltz.TypedBucket) string {
			if g := b.GetTime("f"); g == nil || !g.Equal(v) {
				return fmt.Sprintf("SetTime(%v) read back as %v", v, g)
			}
			if g := b.GetTime("g"); g == nil || !g.Equal(v) {
				return fmt.Sprintf("SetTimeP(%v) read back as %v", v, g)
			}
			if g := b.GetTime("h"); g != nil {
				return "nil time pointer read back as a time"
			}
			if g := b.GetTimeOrError("f"); !g.Equal(v) || b.HasError() {
				return "GetTimeOrError disagrees"
			}
			return ""
		})
	}

	// ---- string lists -> sorted duplicate-free sets
	elems := []string{"", "a", "b", "a"}
	var lists [][]string
	var genL func(cur []string)
	genL = func(cur []string) {
		lists = append(lists, append([]string{}, cur...))
		if len(cur) == 3 {
			return
		}
		for _, e := range elems {
			genL(append(cur, e))
		}
	}
	genL(nil)
	for _, l := range lists {
		l := l
		want := map[string]bool{}
		for _, e := range l {
			want[e] = true
		}
		var ws []string
		for e := range want {
			ws = append(ws, e)
		}
		sort.Strings(ws)
		rt("string-list", fmt.Sprintf("%q", l), func(b *boltz.TypedBucket) { b.SetStringList("f", l, nil) }, func(b *boltz.TypedBucket) string {
			g := b.GetStringList("f")
			if strings.Join(g, "\x01") != strings.Join(ws, "\x01") || len(g) != len(ws) {
				return fmt.Sprintf("SetStringList(%q) read back as %q, want sorted set %q", l, g, ws)
			}
			if empty := b.IsStringListEmpty("f"); empty != (len(ws) == 0) {
				return fmt.Sprintf("IsStringListEmpty = %v for %q", empty, ws)
			}
			return ""
		})
	}

	// ---- overwrites: a list written over an earlier list reads back as the set of the NEW list, whether
	// the first write was committed before or happened earlier in the same transaction; both setters
	setOf := func(l []string) []string {
		m := map[string]bool{}
		for _, e := range l {
			m[e] = true
		}
		var out []string
		for e := range m {
			out = append(out, e)
		}
		sort.Strings(out)
		return out
	}
	for _, first := range lists {
		if len(first) > 2 {
			continue
		}
		for _, second := range lists {
			first, second := first, second
			ws := setOf(second)
			for _, setter := range []string{"SetStringList", "GetAndSetStringList"} {
				setter := setter
				put := func(b *boltz.TypedBucket, l []string) {
					if setter == "SetStringList" {
						b.SetStringList("f", l, nil)
					} else {
						b.GetAndSetStringList("f", l, nil)
					}
				}
				for _, sameTx := range []bool{false, true} {
					what := fmt.Sprintf("%s %q then %q sameTx=%v", setter, first, second, sameTx)
					rep.Count("evaluations", 1)
					rep.Outcome("string-list-overwrite")
					var got []string
					err := d.db.Update(nil, func(ctx boltz.MutateContext) error {
						b, err := boltz.GetOrCreatePath(ctx.Tx(), "root").EmptyBucket("c13")
						if err != nil {
							return err
						}
						put(b, first)
						if sameTx {
							put(b, second)
						}
						return b.GetError()
					})
					if err == nil && !sameTx {
						err = d.db.Update(nil, func(ctx boltz.MutateContext) error {
							b := boltz.Path(ctx.Tx(), "root", "c13")
							put(b, second)
							return b.GetError()
						})
					}
					if err == nil {
						err = d.db.View(func(tx *bbolt.Tx) error { got = boltz.Path(tx, "root", "c13").GetStringList("f"); return nil })
					}
					if err != nil {
						fail("string-list-overwrite", what, "failed: "+err.Error())
					} else if strings.Join(got, "\x01") != strings.Join(ws, "\x01") || len(got) != len(ws) {
						fail("string-list-overwrite", what, fmt.Sprintf("%s: read back %q, want sorted set %q", what, got, ws))
					}
				}
			}
		}
	}

	// ---- containers: all value trees
	tv := time.Date(2020, 2, 29, 23, 30, 0, 0, est)
	leaves := []interface{}{"a", "", int64(7), int32(3), 2.5, true, tv, nil}
	containersOf := func(vals []interface{}) []interface{} {
		var out []interface{}
		out = append(out, map[string]interface{}{}, []interface{}{})
		for _, a := range vals {
			out = append(out, map[string]interface{}{"k1": a}, []interface{}{a})
		}
		for _, a := range vals {
			for _, b := range vals {
				out = append(out, map[string]interface{}{"k1": a, "k2": b}, []interface{}{a, b})
			}
		}
		return out
	}
	v1 := leaves
	v2 := append(append([]interface{}{}, leaves...), containersOf(v1)...)
	checkTree := func(top map[string]interface{}) {
		rt("value-tree", descVal(top), func(b *boltz.TypedBucket) { b.PutMap("m", top, nil, true) }, func(b *boltz.TypedBucket) string {
			g := b.GetMap("m")
			if !eqVal(top, g) {
				return fmt.Sprintf("PutMap(%s) read back as %s", descVal(top), descVal(g))
			}
			return ""
		})
	}
	checkTree(map[string]interface{}{})
	for _, a := range v2 {
		checkTree(map[string]interface{}{"x": a})
		if rep.TooMany() {
			break
		}
	}
	for i, a := range v2 {
		for j, b := range v2 {
			if !thorough && (i+j)%4 != 0 {
				continue
			}
			checkTree(map[string]interface{}{"x": a, "y": b})
		}
		if rep.TooMany() {
			break
		}
	}
	if thorough {
		v3only := containersOf(v2)
		for _, a := range v3only {
			checkTree(map[string]interface{}{"x": a})
			if rep.TooMany() {
				break
			}
		}
	}
	// top-level lists
	for _, a := range v2 {
		l := []interface{}{a, "tail"}
		rt("value-list", descVal(l), func(b *boltz.TypedBucket) { b.PutList("l", l, nil) }, func(b *boltz.TypedBucket) string {
			g := b.GetList("l")
			if !eqVal(l, g) {
				return fmt.Sprintf("PutList(%s) read back as %s", descVal(l), descVal(g))
			}
			return ""
		})
	}

	// ---- size boundaries: element counts around one-byte and two-byte index widths, long strings as values and keys
	listSizes := []int{1, 2, 255, 256, 257, 300}
	if thorough {
		listSizes = append(listSizes, 65536+2)
	}
	for _, n := range listSizes {
		n := n
		l := make([]interface{}, n)
		sl := make([]string, n)
		mp := map[string]interface{}{}
		for i := range l {
			l[i] = int64(i)
			sl[i] = fmt.Sprintf("s%06d", i)
			if n <= 300 {
				mp[fmt.Sprintf("k%d", i)] = int64(i)
			}
		}
		rt("value-list-size", fmt.Sprint(n), func(b *boltz.TypedBucket) { b.PutList("l", l, nil) }, func(b *boltz.TypedBucket) string {
			if g := b.GetList("l"); !eqVal(l, g) {
				return fmt.Sprintf("PutList of %d distinct integers: read back %d elements, first difference at %d", n, len(g), firstDiff(l, g))
			}
			return ""
		})
		if n <= 300 {
			nested := map[string]interface{}{"x": l, "y": mp}
			rt("value-list-size", fmt.Sprintf("nested %d", n), func(b *boltz.TypedBucket) { b.PutMap("m", nested, nil, true) }, func(b *boltz.TypedBucket) string {
				if g := b.GetMap("m"); !eqVal(nested, g) {
					return fmt.Sprintf("PutMap with a %d-element list and a %d-key map inside did not read back equal", n, n)
				}
				return ""
			})
			rt("string-list-size", fmt.Sprint(n), func(b *boltz.TypedBucket) { b.SetStringList("f", sl, nil) }, func(b *boltz.TypedBucket) string {
				if g := b.GetStringList("f"); strings.Join(g, ",") != strings.Join(sl, ",") {
					return fmt.Sprintf("SetStringList of %d strings read back %d elements", n, len(g))
				}
				return ""
			})
		}
	}
	for _, n := range []int{63, 64, 65, 255, 256, 257, 4096, 32768 - 1} {
		v := strings.Repeat("v", n)
		rt("string-size", fmt.Sprint(n), func(b *boltz.TypedBucket) {
			b.SetString("f", v, nil)
			b.SetStringList("l", []string{v, "a"}, nil)
			b.PutMap("m", map[string]interface{}{"k": v}, nil, true)
		}, func(b *boltz.TypedBucket) string {
			if g := b.GetString("f"); g == nil || *g != v {
				return fmt.Sprintf("string of %d bytes not read back", n)
			}
			if g := b.GetStringList("l"); len(g) != 2 || g[1] != v {
				return fmt.Sprintf("string list element of %d bytes not read back (%d elements)", n, len(g))
			}
			if g := b.GetMap("m"); !eqVal(map[string]interface{}{"k": v}, g) {
				return fmt.Sprintf("map value of %d bytes not read back", n)
			}
			return ""
		})
	}

	// ---- container overwrites: a map/list written over an earlier one reads back as the NEW value
	// (nothing of the old one survives), first write committed before or earlier in the same transaction
	owMaps := []map[string]interface{}{{}, {"x": "a"}, {"x": int64(7)}, {"x": map[string]interface{}{"k1": "a"}}, {"x": []interface{}{"a"}}, {"x": nil},
		{"x": "a", "y": true}, {"y": []interface{}{"a", int64(7)}}, {"x": map[string]interface{}{"k1": "a", "k2": ""}}, {"x": map[string]interface{}{"k2": map[string]interface{}{"k1": tv}}}}
	owLists := [][]interface{}{{}, {"a"}, {int64(7), "a"}, {map[string]interface{}{"k": "a"}}, {[]interface{}{"a"}}, {"a", "b", "c"}}
	overwrite := func(kind, what string, first, second func(b *boltz.TypedBucket), read func(b *boltz.TypedBucket) string) {
		for _, sameTx := range []bool{false, true} {
			rep.Count("evaluations", 1)
			rep.Outcome(kind)
			var problem string
			err := d.db.Update(nil, func(ctx boltz.MutateContext) error {
				b, err := boltz.GetOrCreatePath(ctx.Tx(), "root").EmptyBucket("c13")
				if err != nil {
					return err
				}
				first(b)
				if sameTx {
					second(b)
				}
				return b.GetError()
			})
			if err == nil && !sameTx {
				err = d.db.Update(nil, func(ctx boltz.MutateContext) error {
					b := boltz.Path(ctx.Tx(), "root", "c13")
					second(b)
					return b.GetError()
				})
			}
			if err == nil {
				err = d.db.View(func(tx *bbolt.Tx) error { problem = read(boltz.Path(tx, "root", "c13")); return nil })
			}
			w := fmt.Sprintf("%s sameTx=%v", what, sameTx)
			if err != nil {
				fail(kind, w, "failed: "+err.Error())
			} else if problem != "" {
				fail(kind, w, w+": "+problem)
			}
		}
	}
	for _, m1 := range owMaps {
		for _, m2 := range owMaps {
			m1, m2 := m1, m2
			overwrite("map-overwrite", descVal(m1)+" then "+descVal(m2),
				func(b *boltz.TypedBucket) { b.PutMap("m", m1, nil, true) }, func(b *boltz.TypedBucket) { b.PutMap("m", m2, nil, true) },
				func(b *boltz.TypedBucket) string {
					if g := b.GetMap("m"); !eqVal(m2, g) {
						return fmt.Sprintf("read back as %s", descVal(g))
					}
					return ""
				})
		}
	}
	for _, l1 := range owLists {
		for _, l2 := range owLists {
			l1, l2 := l1, l2
			overwrite("list-overwrite", descVal(l1)+" then "+descVal(l2),
				func(b *boltz.TypedBucket) { b.PutList("l", l1, nil) }, func(b *boltz.TypedBucket) { b.PutList("l", l2, nil) },
				func(b *boltz.TypedBucket) string {
					if g := b.GetList("l"); !eqVal(l2, g) {
						return fmt.Sprintf("read back as %s", descVal(g))
					}
					return ""
				})
		}
	}
	// a scalar written over a scalar of another type (and over null) reads back as the new value and type
	type sc struct {
		name string
		set  func(b *boltz.TypedBucket)
		get  func(b *boltz.TypedBucket) string
	}
	str := "v"
	scalars := []sc{
		{"string", func(b *boltz.TypedBucket) { b.SetString("f", "v", nil) }, func(b *boltz.TypedBucket) string {
			return fmt.Sprintf("%v|%v|%v|%v", derefS(b.GetString("f")), b.GetInt64("f") == nil, b.GetBool("f") == nil, b.GetTime("f") == nil)
		}},
		{"null", func(b *boltz.TypedBucket) { b.SetStringP("f", nil, nil) }, func(b *boltz.TypedBucket) string {
			return fmt.Sprintf("%v|%v|%v|%v", b.GetString("f") == nil, b.GetInt64("f") == nil, b.GetBool("f") == nil, b.GetTime("f") == nil)
		}},
		{"int64", func(b *boltz.TypedBucket) { b.SetInt64("f", 7, nil) }, func(b *boltz.TypedBucket) string {
			g := b.GetInt64("f")
			return fmt.Sprintf("%v|%v", g != nil && *g == 7, b.GetString("f") == nil)
		}},
		{"bool", func(b *boltz.TypedBucket) { b.SetBool("f", true, nil) }, func(b *boltz.TypedBucket) string {
			g := b.GetBool("f")
			return fmt.Sprintf("%v|%v", g != nil && *g, b.GetInt64("f") == nil)
		}},
		{"time", func(b *boltz.TypedBucket) { b.SetTime("f", tv, nil) }, func(b *boltz.TypedBucket) string {
			g := b.GetTime("f")
			return fmt.Sprintf("%v|%v", g != nil && g.Equal(tv), b.GetString("f") == nil)
		}},
		{"float64", func(b *boltz.TypedBucket) { b.SetFloat64("f", 2.5, nil) }, func(b *boltz.TypedBucket) string {
			g := b.GetFloat64("f")
			return fmt.Sprintf("%v|%v", g != nil && *g == 2.5, b.GetBool("f") == nil)
		}},
	}
	_ = str
	alone := map[string]string{}
	for _, x := range scalars {
		x := x
		_ = d.roundTrip(x.set, func(b *boltz.TypedBucket) { alone[x.name] = x.get(b) })
	}
	for _, x := range scalars {
		for _, y := range scalars {
			x, y := x, y
			overwrite("scalar-type-overwrite", x.name+" then "+y.name, x.set, y.set, func(b *boltz.TypedBucket) string {
				if g := y.get(b); g != alone[y.name] {
					return fmt.Sprintf("getters answer %q, after a single write of the %s they answer %q", g, y.name, alone[y.name])
				}
				return ""
			})
		}
	}

	// ---- mapped field checkers (PersistContext.WithFieldOverrides): a stored field that is mapped to an API name is
	// selected exactly when that API name is; unmapped fields are selected under their own name; all 32 selections
	mapping := map[string]string{"a": "apiA", "b": "apiB"}
	names := []string{"a", "b", "c", "apiA", "apiB"}
	for mask := 0; mask < 1<<len(names); mask++ {
		base := boltz.MapFieldChecker{}
		var sel []string
		for i, n := range names {
			if mask&(1<<i) != 0 {
				base[n] = struct{}{}
				sel = append(sel, n)
			}
		}
		mapped := boltz.NewMappedFieldChecker(base, mapping)
		what := fmt.Sprintf("selected=%v", sel)
		rep.Count("evaluations", 1)
		rep.Outcome("mapped-field-checker")
		var problem string
		for _, f := range []string{"a", "b", "c", "apiA", "apiB", "zz"} {
			_, isSel := base[f]
			if o, ok := mapping[f]; ok {
				_, isSel = base[o]
			}
			if got := mapped.IsUpdated(f); got != isSel {
				problem = fmt.Sprintf("IsUpdated(%q) = %v, expected %v (mapping %v)", f, got, isSel, mapping)
			}
		}
		// and through real writes: old values first, then new values under the mapped checker
		err := d.roundTrip(func(b *boltz.TypedBucket) {
			for _, f := range []string{"a", "b", "c"} {
				b.SetString(f, "old", nil)
			}
		}, func(*boltz.TypedBucket) {})
		if err == nil {
			err = d.db.Update(nil, func(ctx boltz.MutateContext) error {
				b := boltz.Path(ctx.Tx(), "root", "c13")
				for _, f := range []string{"a", "b", "c"} {
					b.SetString(f, "new", mapped)
				}
				return b.GetError()
			})
		}
		if err == nil {
			err = d.db.View(func(tx *bbolt.Tx) error {
				b := boltz.Path(tx, "root", "c13")
				for _, f := range []string{"a", "b", "c"} {
					want := "old"
					key := f
					if o, ok := mapping[f]; ok {
						key = o
					}
					if _, ok := base[key]; ok {
						want = "new"
					}
					if g := b.GetString(f); g == nil || *g != want {
						problem = fmt.Sprintf("field %q reads %q after the restricted write, expected %q", f, derefS(g), want)
					}
				}
				return nil
			})
		}
		if err != nil {
			fail("mapped-field-checker", what, "failed: "+err.Error())
		} else if problem != "" {
			fail("mapped-field-checker", what, what+": "+problem)
		}
	}

	// ---- the entity-level write path: every PersistContext setter under every selection
	c13PersistContext(rep)
	c13BaseValues(rep)

	// ---- field checkers: a restricted write touches only the selected fields
	fields := []string{"s", "i", "t", "l"}
	for mask := 0; mask < 16; mask++ {
		checker := boltz.MapFieldChecker{}
		var sel []string
		for i, f := range fields {
			if mask&(1<<i) != 0 {
				checker[f] = struct{}{}
				sel = append(sel, f)
			}
		}
		rep.Count("evaluations", 1)
		rep.Outcome("field-checker")
		var before, after *dump.Tree
		err := d.db.Update(nil, func(ctx boltz.MutateContext) error {
			root := boltz.GetOrCreatePath(ctx.Tx(), "root")
			b, _ := root.EmptyBucket("c13")
			b.SetString("s", "old", nil).SetInt64("i", 1, nil).SetTime("t", tv, nil).SetStringList("l", []string{"o1", "o2"}, nil)
			b.PutMap("m", map[string]interface{}{"k": "old"}, nil, true)
			before = dump.Tx(ctx.Tx())
			b.SetString("s", "new", checker).SetInt64("i", 2, checker).SetTime("t", tv.Add(time.Hour), checker).SetStringList("l", []string{"n1"}, checker)
			b.PutMap("m", map[string]interface{}{"k": "new"}, checker, true)
			after = dump.Tx(ctx.Tx())
			return b.GetError()
		})
		if err != nil {
			fail("field-checker", fmt.Sprint(sel), err.Error())
			continue
		}
		bb, ab := before.Get("root", "c13"), after.Get("root", "c13")
		for _, f := range append(append([]string{}, fields...), "m") {
			selected := checker.IsUpdated(f)
			var same bool
			if f == "l" || f == "m" {
				same = bb.Buckets[f].Equal(ab.Buckets[f])
			} else {
				same = bytes.Equal(bb.Values[f], ab.Values[f])
			}
			if selected && same {
				fail("field-checker", fmt.Sprintf("%v/%s", sel, f), fmt.Sprintf("checker %v selects %s but the write did not change it", sel, f))
			}
			if !selected && !same {
				fail("field-checker", fmt.Sprintf("%v/%s", sel, f), fmt.Sprintf("checker %v does not select %s but the write changed it", sel, f))
			}
		}
	}

	// ---- every setter honours the checker: for each field, (only that field selected) and (every other field selected),
	// with nil-pointer writes as well (a nil value must not bypass the checker)
	{
		strA, strB := "old", "new"
		type fieldOp struct {
			name   string
			bucket bool
			first  func(b *boltz.TypedBucket, c boltz.FieldChecker)
			second func(b *boltz.TypedBucket, c boltz.FieldChecker)
		}
		fops := []fieldOp{
			{"SetString", false, func(b *boltz.TypedBucket, c boltz.FieldChecker) { b.SetString("SetString", strA, c) }, func(b *boltz.TypedBucket, c boltz.FieldChecker) { b.SetString("SetString", strB, c) }},
			{"SetStringP", false, func(b *boltz.TypedBucket, c boltz.FieldChecker) { b.SetStringP("SetStringP", &strA, c) }, func(b *boltz.TypedBucket, c boltz.FieldChecker) { b.SetStringP("SetStringP", &strB, c) }},
			{"SetStringP(nil)", false, func(b *boltz.TypedBucket, c boltz.FieldChecker) { b.SetStringP("SetStringP(nil)", &strA, c) }, func(b *boltz.TypedBucket, c boltz.FieldChecker) { b.SetStringP("SetStringP(nil)", nil, c) }},
			{"SetBool", false, func(b *boltz.TypedBucket, c boltz.FieldChecker) { b.SetBool("SetBool", false, c) }, func(b *boltz.TypedBucket, c boltz.FieldChecker) { b.SetBool("SetBool", true, c) }},
			{"SetInt32", false, func(b *boltz.TypedBucket, c boltz.FieldChecker) { b.SetInt32("SetInt32", 1, c) }, func(b *boltz.TypedBucket, c boltz.FieldChecker) { b.SetInt32("SetInt32", 2, c) }},
			{"SetInt64", false, func(b *boltz.TypedBucket, c boltz.FieldChecker) { b.SetInt64("SetInt64", 1, c) }, func(b *boltz.TypedBucket, c boltz.FieldChecker) { b.SetInt64("SetInt64", 2, c) }},
			{"SetFloat64", false, func(b *boltz.TypedBucket, c boltz.FieldChecker) { b.SetFloat64("SetFloat64", 1.5, c) }, func(b *boltz.TypedBucket, c boltz.FieldChecker) { b.SetFloat64("SetFloat64", 2.5, c) }},
			{"SetTime", false, func(b *boltz.TypedBucket, c boltz.FieldChecker) { b.SetTime("SetTime", tv, c) }, func(b *boltz.TypedBucket, c boltz.FieldChecker) { b.SetTime("SetTime", tv.Add(time.Hour), c) }},
			{"SetTimeP", false, func(b *boltz.TypedBucket, c boltz.FieldChecker) { b.SetTimeP("SetTimeP", &tv, c) }, func(b *boltz.TypedBucket, c boltz.FieldChecker) {
				t2 := tv.Add(time.Hour)
				b.SetTimeP("SetTimeP", &t2, c)
			}},
			{"SetTimeP(nil)", false, func(b *boltz.TypedBucket, c boltz.FieldChecker) { b.SetTimeP("SetTimeP(nil)", &tv, c) }, func(b *boltz.TypedBucket, c boltz.FieldChecker) { b.SetTimeP("SetTimeP(nil)", nil, c) }},
			{"GetAndSetString", false, func(b *boltz.TypedBucket, c boltz.FieldChecker) { b.GetAndSetString("GetAndSetString", strA, c) }, func(b *boltz.TypedBucket, c boltz.FieldChecker) { b.GetAndSetString("GetAndSetString", strB, c) }},
			{"SetStringList", true, func(b *boltz.TypedBucket, c boltz.FieldChecker) {
				b.SetStringList("SetStringList", []string{"o1", "o2"}, c)
			}, func(b *boltz.TypedBucket, c boltz.FieldChecker) { b.SetStringList("SetStringList", []string{"n1"}, c) }},
			{"SetStringList(empty)", true, func(b *boltz.TypedBucket, c boltz.FieldChecker) {
				b.SetStringList("SetStringList(empty)", []string{"o1"}, c)
			}, func(b *boltz.TypedBucket, c boltz.FieldChecker) { b.SetStringList("SetStringList(empty)", nil, c) }},
			{"GetAndSetStringList", true, func(b *boltz.TypedBucket, c boltz.FieldChecker) {
				b.GetAndSetStringList("GetAndSetStringList", []string{"o1"}, c)
			}, func(b *boltz.TypedBucket, c boltz.FieldChecker) {
				b.GetAndSetStringList("GetAndSetStringList", []string{"n1", "n2"}, c)
			}},
			{"PutMap", true, func(b *boltz.TypedBucket, c boltz.FieldChecker) {
				b.PutMap("PutMap", map[string]interface{}{"k": "old"}, c, true)
			}, func(b *boltz.TypedBucket, c boltz.FieldChecker) {
				b.PutMap("PutMap", map[string]interface{}{"k": "new", "j": int64(1)}, c, true)
			}},
			{"PutMap(nil)", true, func(b *boltz.TypedBucket, c boltz.FieldChecker) {
				b.PutMap("PutMap(nil)", map[string]interface{}{"k": "old"}, c, true)
			}, func(b *boltz.TypedBucket, c boltz.FieldChecker) { b.PutMap("PutMap(nil)", nil, c, true) }},
			{"PutList", true, func(b *boltz.TypedBucket, c boltz.FieldChecker) { b.PutList("PutList", []interface{}{"old"}, c) }, func(b *boltz.TypedBucket, c boltz.FieldChecker) { b.PutList("PutList", []interface{}{"new", "x"}, c) }},
		}
		for fi, target := range fops {
			for _, mode := range []string{"only", "all-but"} {
				checker := boltz.MapFieldChecker{}
				for fj, f := range fops {
					if (mode == "only") == (fi == fj) {
						checker[f.name] = struct{}{}
					}
				}
				rep.Count("evaluations", 1)
				rep.Outcome("field-checker-per-setter")
				var before, after *dump.Tree
				err := d.db.Update(nil, func(ctx boltz.MutateContext) error {
					root := boltz.GetOrCreatePath(ctx.Tx(), "root")
					b, _ := root.EmptyBucket("c13")
					for _, f := range fops {
						f.first(b, nil)
					}
					before = dump.Tx(ctx.Tx())
					for _, f := range fops {
						f.second(b, checker)
					}
					after = dump.Tx(ctx.Tx())
					return b.GetError()
				})
				what := fmt.Sprintf("%s %s", mode, target.name)
				if err != nil {
					fail("field-checker", what, err.Error())
					continue
				}
				bb, ab := before.Get("root", "c13"), after.Get("root", "c13")
				for _, f := range fops {
					var same bool
					if f.bucket {
						same = bb.Buckets[f.name] != nil && ab.Buckets[f.name] != nil && bb.Buckets[f.name].Equal(ab.Buckets[f.name])
					} else {
						same = bytes.Equal(bb.Values[f.name], ab.Values[f.name])
					}
					selected := checker.IsUpdated(f.name)
					if selected && same {
						fail("field-checker", what+"/"+f.name, fmt.Sprintf("checker (%s) selects %s but the write did not change it", what, f.name))
					}
					if !selected && !same {
						fail("field-checker", what+"/"+f.name, fmt.Sprintf("checker (%s) does not select %s but the write changed it", what, f.name))
					}
				}
			}
		}
	}

	// ---- compound keys
	big := func(n int) string { return strings.Repeat("k", n) }
	kelems := []string{"", "a", "b", "\x00", "\x80a", big(127), big(128), big(4096)}
	var klists [][]string
	var genK func(cur []string)
	genK = func(cur []string) {
		klists = append(klists, append([]string{}, cur...))
		if len(cur) == 3 {
			return
		}
		for _, e := range kelems {
			genK(append(cur, e))
		}
	}
	genK(nil)
	seenEnc := map[string]string{}
	for _, l := range klists {
		rep.Count("evaluations", 1)
		rep.Outcome("compound-key")
		what := descVal(toIfaces(l))
		enc, err := boltz.EncodeStringSlice(l)
		if err != nil {
			fail("compound-key", what, "EncodeStringSlice failed: "+err.Error())
			continue
		}
		dec, err := boltz.DecodeStringSlice(enc)
		if err != nil || len(dec) != len(l) || strings.Join(dec, "\x01") != strings.Join(l, "\x01") {
			fail("compound-key", what, fmt.Sprintf("decode(encode(%s)) = %s err=%v", what, descVal(toIfaces(dec)), err))
		}
		if prev, ok := seenEnc[string(enc)]; ok {
			fail("compound-key-collision", what, fmt.Sprintf("lists %s and %s share one encoding", prev, what))
		}
		seenEnc[string(enc)] = what
	}
	if _, err := boltz.EncodeStringSlice([]string{big(4097)}); err == nil {
		fail("compound-key", "4097-byte element", "an element above the documented maximum was accepted")
	}
	rep.Sample(map[string]interface{}{"value_tree": descVal(map[string]interface{}{"x": []interface{}{nil, map[string]interface{}{}}, "y": int32(3)})})
	rep.Sample(map[string]interface{}{"compound_key": []string{"", "\x00", "a"}})
	rep.Set("evaluations", rep.Get("evaluations"))
	return rep.Finish()
}

func derefS(p *string) string {
	if p == nil {
		return "null"
	}
	return descVal(*p)
}

func toIfaces(l []string) []interface{} {
	out := make([]interface{}, len(l))
	for i, s := range l {
		out[i] = s
	}
	return out
}

func firstDiff(want, got []interface{}) int {
	for i := range want {
		if i >= len(got) || !eqVal(want[i], got[i]) {
			return i
		}
	}
	return -1
}
