package checks

import (
	"context"
	"errors"
	"fmt"
	"os"
	"os/exec"
	"sort"
	"strings"
	"sync"
	"sync/atomic"

	"github.com/openziti/foundation/v2/errorz"
	"github.com/openziti/storage/ast"
	"github.com/openziti/storage/boltz"
	"go.etcd.io/bbolt"
	"verif/dump"
	"verif/explore"
	"verif/report"
	"verif/vsched"
	"verif/vsync"
	"verif/world"
)

// ---------------------------------------------------------------------------------------------
// concurrency world shared by C17 and C18

type cWorld struct {
	items, places *world.Store
	nameIdx       boltz.ReadIndex
	rolesIdx      boltz.SetReadIndex
	lp, ll        boltz.LinkCollection
	qB, qA        ast.Query
	qDot          ast.Query
	qDotFk        ast.Query
	qBplain       ast.Query
	qAplain       ast.Query
	lite          bool // fewer scheduling points inside readTuple (no in-scan yields)
}

func newCWorld() *cWorld {
	w := &cWorld{}
	w.places = world.NewStore(&world.Spec{EntityType: "places", BasePath: []string{"root"}, Fields: []world.Field{{Name: "label", Kind: world.KString}}})
	w.items = world.NewStore(&world.Spec{EntityType: "items", BasePath: []string{"root"}, Fields: []world.Field{
		{Name: "name", Kind: world.KString}, {Name: "roles", Kind: world.KStringList}, {Name: "ver", Kind: world.KInt64P}, {Name: "tags", Kind: world.KMap}, {Name: "peer", Kind: world.KStringP}}})
	w.places.AddScalarSymbols()
	w.items.AddMapSymbol("tags", ast.NodeTypeAnyType, "tags")
	// two map symbols below a common path that the application built once and re-uses (a slice with spare capacity)
	extPath := make([]string, 0, 4)
	extPath = append(extPath, "edge")
	w.items.AddMapSymbol("deep", ast.NodeTypeAnyType, "deep", extPath...)
	w.items.AddMapSymbol("wide", ast.NodeTypeAnyType, "wide", extPath...)
	w.items.AddFkSymbol("peer", w.items) // a single-valued first hop in front of a set: peer.places.*
	w.items.MakeSymbolPublic("tags")
	w.items.AddIdSymbol("id", ast.NodeTypeString)
	w.nameIdx = w.items.AddUniqueIndex(w.items.AddSymbol("name", ast.NodeTypeString))
	w.items.AddSymbol("ver", ast.NodeTypeInt64)
	w.items.MakeSymbolPublic("name")
	w.rolesIdx = w.items.AddSetIndex(w.items.AddSetSymbol("roles", ast.NodeTypeString))
	symIP := w.items.AddFkSetSymbol("places", w.places)
	symPI := w.places.AddFkSetSymbol("items", w.items)
	w.lp = w.items.AddLinkCollection(symIP, symPI)
	w.ll = w.places.AddLinkCollection(symPI, symIP)
	// a public extension point: an external symbol evaluated per row lets the harness place a
	// scheduling point INSIDE a scan without touching the library
	w.items.AddEntitySymbol(boltz.NewBoolFuncSymbol(w.items, "hook", func(id string) bool {
		vsync.Yield("scan-row:" + id)
		return true
	}))
	w.places.AddEntitySymbol(boltz.NewStringFuncSymbol(w.places, "ptag", func(id string) *string {
		vsync.Yield("scan-element:" + id)
		return &id
	}))
	var err error
	if w.qDot, err = ast.Parse(w.items, `anyOf(places.ptag) = "l2" or allOf(places.label) = "zz"`); err != nil {
		panic(err)
	}
	if w.qDotFk, err = ast.Parse(w.items, `anyOf(peer.places.ptag) = "l2" or allOf(peer.places.label) = "zz"`); err != nil {
		panic(err)
	}
	if w.qB, err = ast.Parse(w.items, `hook and anyOf(roles) = "b"`); err != nil {
		panic(err)
	}
	if w.qA, err = ast.Parse(w.items, `hook and anyOf(roles) = "a" sort by name desc`); err != nil {
		panic(err)
	}
	if w.qBplain, err = ast.Parse(w.items, `anyOf(roles) = "b"`); err != nil {
		panic(err)
	}
	if w.qAplain, err = ast.Parse(w.items, `anyOf(roles) = "a" sort by name desc`); err != nil {
		panic(err)
	}
	return w
}

func (w *cWorld) item(id, name string, roles []string, ver int64) *world.Rec {
	peer := map[string]interface{}{"i1": "i2", "i2": "i1", "i3": "i1"}[id] // nil for every other id
	return world.NewRec("items", id).With("name", name).With("roles", roles).With("ver", ver).With("tags", map[string]interface{}{"k": "a", "j": int64(5)}).With("peer", peer)
}

// buildBase creates the base database file (pre-grown so that later small commits never remap).
func (w *cWorld) buildBase(path string) {
	db, err := boltz.Open(path, "root")
	if err != nil {
		panic(err)
	}
	must := func(err error) {
		if err != nil {
			panic(err)
		}
	}
	must(db.Update(nil, func(ctx boltz.MutateContext) error {
		h := &errorz.ErrorHolderImpl{}
		w.items.InitializeIndexes(ctx.Tx(), h)
		w.places.InitializeIndexes(ctx.Tx(), h)
		if h.HasError() {
			return h.GetError()
		}
		// grow the file, then drop the filler again
		filler := boltz.GetOrCreatePath(ctx.Tx(), "filler")
		for i := 0; i < 100; i++ {
			filler.PutValue([]byte(fmt.Sprintf("k%04d", i)), []byte(strings.Repeat("x", 1000)))
		}
		return filler.GetError()
	}))
	must(db.Update(nil, func(ctx boltz.MutateContext) error { return ctx.Tx().DeleteBucket([]byte("filler")) }))
	must(db.Update(nil, func(ctx boltz.MutateContext) error {
		for _, l := range []string{"l1", "l2"} {
			if err := w.places.Create(ctx, world.NewRec("places", l).With("label", "L")); err != nil {
				return err
			}
		}
		if err := w.items.Create(ctx, w.item("i1", "N1", []string{"a"}, 0)); err != nil {
			return err
		}
		if err := w.items.Create(ctx, w.item("i2", "N2", []string{"b"}, 0)); err != nil {
			return err
		}
		return w.lp.AddLinks(ctx.Tx(), "i1", "l1")
	}))
	must(db.Close())
}

// writer transactions (each touches entity, unique index, set index and link buckets); y is called between operations
func (w *cWorld) tx1(ctx boltz.MutateContext, y func(string)) error {
	if err := w.items.Update(ctx, w.item("i1", "N1x", []string{"b"}, 1), nil); err != nil {
		return err
	}
	y("tx1:after-update-i1")
	if err := w.lp.RemoveLinks(ctx.Tx(), "i1", "l1"); err != nil {
		return err
	}
	y("tx1:after-unlink")
	if err := w.lp.AddLinks(ctx.Tx(), "i2", "l1", "l2"); err != nil {
		return err
	}
	y("tx1:after-link")
	return w.items.Update(ctx, w.item("i2", "N2", []string{"a", "b"}, 1), nil)
}

func (w *cWorld) tx2(ctx boltz.MutateContext, y func(string)) error {
	if err := w.items.Create(ctx, w.item("i3", "N3", []string{"a", "b"}, 2)); err != nil {
		return err
	}
	y("tx2:after-create-i3")
	if err := w.items.DeleteById(ctx, "i2"); err != nil {
		return err
	}
	y("tx2:after-delete-i2")
	return w.items.Update(ctx, w.item("i1", "N1x", []string{"b"}, 2), boltz.MapFieldChecker{"ver": struct{}{}})
}

// readTuple is what one read transaction observes; y is called between the reads.
func (w *cWorld) readTuple(tx *bbolt.Tx, y func(string)) string {
	var parts []string
	ver := "absent"
	if e, found, _ := w.items.FindById(tx, "i1"); found {
		ver = fmt.Sprint(e.F["ver"])
	}
	parts = append(parts, "ver="+ver)
	y("read:after-marker")
	qB, qA := w.qB, w.qA
	if w.lite {
		qB, qA = w.qBplain, w.qAplain
	}
	ids, count, err := w.items.QueryIdsC(tx, qB)
	parts = append(parts, fmt.Sprintf("roles=b:%v/%d/%v", ids, count, err))
	if !w.lite {
		y("read:after-query")
	}
	ids, count, err = w.items.QueryIdsC(tx, qA)
	parts = append(parts, fmt.Sprintf("roles=a-sorted:%v/%d/%v", ids, count, err))
	for _, n := range []string{"N1", "N1x", "N2", "N3"} {
		parts = append(parts, fmt.Sprintf("name[%s]=%s", n, w.nameIdx.Read(tx, []byte(n))))
	}
	y("read:after-unique-index")
	for _, r := range []string{"a", "b"} {
		var got []string
		w.rolesIdx.Read(tx, []byte(r), func(v []byte) { got = append(got, string(v)) })
		parts = append(parts, fmt.Sprintf("roleidx[%s]=%v", r, got))
	}
	if !w.lite {
		y("read:after-set-index")
	}
	parts = append(parts, fmt.Sprintf("links(i1)=%v links(i2)=%v links(l1)=%v", w.lp.GetLinks(tx, "i1"), w.lp.GetLinks(tx, "i2"), w.ll.GetLinks(tx, "l1")))
	return strings.Join(parts, " ")
}

func noYield(string) {}

// serialTuples computes the reader's tuple on each committed state of the writer's history.
func (w *cWorld) serialTuples(base, dir string) (tuples []string, dumps []*dump.Tree) {
	path := dir + "/serial.db"
	if err := explore.CopyFile(base, path); err != nil {
		panic(err)
	}
	db, err := boltz.Open(path, "root")
	if err != nil {
		panic(err)
	}
	defer db.Close()
	snap := func() {
		_ = db.View(func(tx *bbolt.Tx) error {
			tuples = append(tuples, w.readTuple(tx, noYield))
			dumps = append(dumps, dump.Tx(tx))
			return nil
		})
	}
	snap()
	for _, txf := range []func(boltz.MutateContext, func(string)) error{w.tx1, w.tx2} {
		txf := txf
		if err := db.Update(nil, func(ctx boltz.MutateContext) error { return txf(ctx, noYield) }); err != nil {
			panic(err)
		}
		snap()
	}
	return
}

// ---------------------------------------------------------------------------------------------
// C18 — concurrent use: snapshot-isolated reads and no data races.

func C18(tier string) int {
	rep := report.New("C18", tier, "model_checking")
	thorough := tier != "quick"
	rep.Assume("the cooperative scheduler interleaves at DbImpl.reloadLock operations, at bbolt's writer, meta and mmap locks, at pooled lexer/parser Get/Put and at harness yield points placed between operations and inside scans; between those points bbolt's calls are atomic")
	rep.Assume("a cooperative scheduler cannot observe unsynchronised accesses: the 'no data races' clause is decided by a separate free-running -race build of the same bodies (every unordered pair of bodies), reported under race_*")
	bound, readers := 2, 1
	if thorough {
		bound, readers = 3, 2
	}
	rep.Set("rule", fmt.Sprintf("ALL schedules with <= %d preemptions of: 1 writer committing 2 multi-operation transactions (entity + unique index + set index + link buckets) || %d reader(s) each reading marker, two index-backed queries with in-scan yields, unique index, set index, links inside ONE View; every reader tuple must equal the serial tuple of exactly one committed state. Helpers (Parse with every pool answer, GetSymbol, error classifiers): results under every explored schedule equal the sequential result.", bound, readers))

	w := newCWorld()
	dir := explore.TmpDir("c18")
	defer os.RemoveAll(dir)
	base := dir + "/base.db"
	w.buildBase(base)
	serial, serialDumps := w.serialTuples(base, dir)
	rep.Set("serial_states", len(serial))
	rep.Sample(map[string]interface{}{"serial_tuple_state0": serial[0], "serial_tuple_state2": serial[2]})

	// ---- isolation
	execNo := 0
	outcomes := map[string]int{}
	_ = outcomes
	ex := &vsched.Explorer{Bound: bound, MaxSteps: 4000, MaxExecs: 400000, ReplayEvery: 25}
	var cur struct {
		db     *boltz.DbImpl
		path   string
		tuples []string
		errs   []error
		// what each transaction saw when it began (part of the global state key used for pruning)
		begin []string
	}
	ex.KeyFn = func() string {
		return strings.Join(cur.begin, "|") + "#" + strings.Join(cur.tuples, "|") + fmt.Sprint(len(cur.errs))
	}
	ex.Cleanup = func() { _ = cur.db.Close() }
	ex.Body = func() func() {
		execNo++
		cur.path = dir + "/x.db"
		if err := explore.CopyFile(base, cur.path); err != nil {
			panic(err)
		}
		db, err := boltz.Open(cur.path, "root")
		if err != nil {
			panic(err)
		}
		cur.db = db
		cur.tuples = make([]string, readers)
		cur.begin = make([]string, readers+2)
		cur.errs = nil
		return func() {
			vsync.Go0(func() {
				for ti, txf := range []func(boltz.MutateContext, func(string)) error{w.tx1, w.tx2} {
					txf, ti := txf, ti
					if err := db.Update(boltz.NewMutateContext(context.Background()), func(ctx boltz.MutateContext) error {
						cur.begin[readers+ti] = w.readTuple(ctx.Tx(), noYield)
						return txf(ctx, vsync.Yield)
					}); err != nil {
						cur.errs = append(cur.errs, err)
					}
				}
			})
			for r := 0; r < readers; r++ {
				r := r
				vsync.Go0(func() {
					if err := db.View(func(tx *bbolt.Tx) error {
						cur.begin[r] = w.readTuple(tx, noYield)
						cur.tuples[r] = w.readTuple(tx, vsync.Yield)
						return nil
					}); err != nil {
						cur.errs = append(cur.errs, err)
					}
				})
			}
		}
	}
	ex.Check = func(x *vsched.Execution) {
		var final *dump.Tree
		_ = cur.db.View(func(tx *bbolt.Tx) error { final = dump.Tx(tx); return nil })
		_ = cur.db.Close()
		rep.Count("transitions", int64(x.Steps))
		sched := x.Schedule()
		replay := map[string]interface{}{"choices": x.Choices(), "schedule": sched}
		switch {
		case x.Hung != "":
			rep.Capped("execution blocked outside the scheduler: " + x.Hung)
		case x.Diverged != "":
			rep.Violation("C18|harness-divergence", "replay diverged: "+x.Diverged, replay)
		case x.Deadlock:
			rep.Violation("C18|deadlock|"+strings.Join(x.Blocked, ";"), "deadlock: "+strings.Join(x.Blocked, "; "), replay)
		case len(x.Panics) > 0:
			rep.Violation("C18|panic", "panic under schedule: "+x.Panics[0], replay)
		case len(cur.errs) > 0:
			rep.Violation("C18|error|"+cur.errs[0].Error(), "transaction failed under schedule: "+cur.errs[0].Error(), replay)
		default:
			for r, t := range cur.tuples {
				idx := -1
				for i, s := range serial {
					if s == t {
						idx = i
					}
				}
				if idx < 0 {
					rep.Violation("C18|reader-saw-a-mixture", fmt.Sprintf("reader %d observed %q, which is not the serial answer on any committed state %q", r, t, serial), replay)
				} else {
					outcomes[fmt.Sprintf("reader-saw-state-%d", idx)]++
					rep.Outcome(fmt.Sprintf("reader-saw-state-%d", idx))
				}
			}
			if !final.Equal(serialDumps[2]) {
				rep.Violation("C18|final-state", "final database differs from the serial result:\n"+dump.Diff(final, serialDumps[2]), replay)
			}
		}
	}
	ex.Explore()
	rep.Count("replay_determinism_checks", int64(ex.Replays))
	if len(ex.ReplayDiffs) > 0 {
		rep.Set("replay_divergences"+"[isolation]", ex.ReplayDiffs)
		rep.Capped("a replayed choice sequence did not reproduce its schedule: nondeterminism the harness does not own (no verdict drawn from it)")
	}
	rep.Count("states", int64(ex.Executions))
	rep.Set("schedules_isolation", ex.Executions)
	rep.Set("alternatives_pruned_by_state_key_isolation", ex.Pruned)
	rep.Set("max_choice_points", ex.MaxPoints)
	if ex.Capped {
		rep.Capped(fmt.Sprintf("isolation: execution cap %d hit", ex.MaxExecs))
	}

	// ---- two readers evaluating a dotted (linked) set symbol with yields inside the set iteration:
	// per-scan cursor state must not be shared between transactions
	{
		path := dir + "/dot.db"
		if err := explore.CopyFile(base, path); err != nil {
			panic(err)
		}
		ddb, err := boltz.Open(path, "root")
		if err != nil {
			panic(err)
		}
		if err := ddb.Update(nil, func(ctx boltz.MutateContext) error { return w.tx1(ctx, noYield) }); err != nil {
			panic(err)
		}
		// every row gets a non-empty, different set behind the fk hop: i1 -> peer i2 -> {l1,l2}; i2 -> peer i1 -> {l2}
		if err := ddb.Update(nil, func(ctx boltz.MutateContext) error { return w.lp.AddLinks(ctx.Tx(), "i1", "l2") }); err != nil {
			panic(err)
		}
		dotQueries := []struct {
			name string
			read func(tx *bbolt.Tx) string
		}{
			{`anyOf(places.ptag) = "l2" or allOf(places.label) = "zz" (set-first composite, parsed once)`, func(tx *bbolt.Tx) string {
				ids, count, err := w.items.QueryIdsC(tx, w.qDot)
				return fmt.Sprintf("%v/%d/%v", ids, count, err)
			}},
			// a composite whose first hop is single-valued (fk), then a set: parsed per call, as an application would
			{`anyOf(peer.places.ptag) = "l1" or allOf(peer.places.label) = "zz" (fk-first composite)`, func(tx *bbolt.Tx) string {
				ids, count, err := w.items.QueryIds(tx, `anyOf(peer.places.ptag) = "l1" or allOf(peer.places.label) = "zz"`)
				return fmt.Sprintf("%v/%d/%v", ids, count, err)
			}},
			{`not isEmpty(peer.places) and allOf(peer.places.ptag) = "l2" (fk-first composite)`, func(tx *bbolt.Tx) string {
				ids, count, err := w.items.QueryIds(tx, `not isEmpty(peer.places) and allOf(peer.places.ptag) = "l2"`)
				return fmt.Sprintf("%v/%d/%v", ids, count, err)
			}},
		}
		totalExecs := 0
		capped := false
		var serial []string
		for _, dq := range dotQueries {
			dq := dq
			dotRead := dq.read
			var want string
			_ = ddb.View(func(tx *bbolt.Tx) error { want = dotRead(tx); return nil })
			serial = append(serial, want)
			got := make([]string, 2)
			ex2 := &vsched.Explorer{Bound: bound, MaxSteps: 4000, MaxExecs: 100000}
			ex2.KeyFn = func() string { return strings.Join(got, "|") }
			ex2.Body = func() func() {
				got[0], got[1] = "", ""
				return func() {
					for r := 0; r < 2; r++ {
						r := r
						vsync.Go0(func() {
							_ = ddb.View(func(tx *bbolt.Tx) error { got[r] = dotRead(tx); return nil })
						})
					}
				}
			}
			ex2.Check = func(x *vsched.Execution) {
				rep.Count("transitions", int64(x.Steps))
				replay := map[string]interface{}{"scenario": "two readers, dotted set symbol", "query": dq.name, "choices": x.Choices(), "schedule": x.Schedule()}
				if x.Deadlock || len(x.Panics) > 0 || x.Hung != "" || x.Diverged != "" {
					rep.Violation("C18|dotted-set-readers|abnormal", fmt.Sprintf("two readers: deadlock=%v panics=%v hung=%q diverged=%q", x.Deadlock, x.Panics, x.Hung, x.Diverged), replay)
					return
				}
				for r := range got {
					if got[r] != want {
						rep.Violation("C18|dotted-set-readers|wrong-answer|"+dq.name, fmt.Sprintf("reader %d evaluating %s concurrently with another reader got %s, serially %s", r, dq.name, got[r], want), replay)
						return
					}
				}
				rep.Outcome("dotted-set-readers-agree")
			}
			ex2.Explore()
			totalExecs += ex2.Executions
			capped = capped || ex2.Capped
		}
		rep.Set("dotted_set_serial_answers", serial)
		ex2 := struct {
			Executions int
			Capped     bool
		}{totalExecs, capped}
		_ = ddb.Close()
		rep.Count("states", int64(ex2.Executions))
		rep.Set("schedules_dotted_set_readers", ex2.Executions)
		if ex2.Capped {
			rep.Capped("dotted-set readers: execution cap hit")
		}
	}

	// ---- two readers with DIFFERENT queries over elements of two map symbols registered below a shared path:
	// the symbols one reader resolved must not be disturbed by the other reader resolving its own
	{
		path := dir + "/map.db"
		if err := explore.CopyFile(base, path); err != nil {
			panic(err)
		}
		mdb, err := boltz.Open(path, "root")
		if err != nil {
			panic(err)
		}
		if err := mdb.Update(nil, func(ctx boltz.MutateContext) error {
			for i, id := range []string{"i1", "i2"} {
				eb := w.items.GetEntityBucket(ctx.Tx(), []byte(id))
				if eb == nil {
					return fmt.Errorf("no entity bucket for %s", id)
				}
				ext := eb.GetOrCreatePath("edge")
				deep := ext.GetOrCreatePath("deep")
				deep.GetOrCreatePath("home").SetString("city", []string{"nyc", "sfo"}[i], nil)
				deep.GetOrCreatePath("work").SetString("city", []string{"sfo", "nyc"}[i], nil)
				deep.SetString("color", []string{"red", "blue"}[i], nil)
				ext.GetOrCreatePath("wide").SetString("color", []string{"blue", "red"}[i], nil)
				ext.GetOrCreatePath("wide").GetOrCreatePath("home").SetString("city", "lax", nil)
				if ext.HasError() {
					return ext.GetError()
				}
			}
			return nil
		}); err != nil {
			panic(err)
		}
		queryPairs := [][2]string{
			{`hook and deep.home.city = "nyc"`, `hook and wide.color = "red"`},
			{`hook and deep.home.city = "nyc"`, `hook and deep.work.city = "nyc"`},
			{`hook and deep.color = "red"`, `hook and wide.home.city = "lax" and wide.color = "red"`},
		}
		total := 0
		for _, qp := range queryPairs {
			qp := qp
			read := func(tx *bbolt.Tx, text string) string {
				q, err := ast.Parse(w.items, text)
				if err != nil {
					return "parse error: " + err.Error()
				}
				vsync.Yield("parsed")
				ids, count, err := w.items.QueryIdsC(tx, q)
				return fmt.Sprintf("%v/%d/%v", ids, count, err)
			}
			var want [2]string
			for r := 0; r < 2; r++ {
				_ = mdb.View(func(tx *bbolt.Tx) error { want[r] = read(tx, qp[r]); return nil })
			}
			if want[0] == want[1] {
				panic("C18 harness: the two map-element queries must have different serial answers: " + want[0])
			}
			got := make([]string, 2)
			ex3 := &vsched.Explorer{Bound: bound, MaxSteps: 4000, MaxExecs: 100000}
			ex3.KeyFn = func() string { return strings.Join(got, "|") }
			ex3.Body = func() func() {
				got[0], got[1] = "", ""
				return func() {
					for r := 0; r < 2; r++ {
						r := r
						vsync.Go0(func() {
							_ = mdb.View(func(tx *bbolt.Tx) error { got[r] = read(tx, qp[r]); return nil })
						})
					}
				}
			}
			ex3.Check = func(x *vsched.Execution) {
				rep.Count("transitions", int64(x.Steps))
				replay := map[string]interface{}{"scenario": "two readers, elements of map symbols below a shared path", "queries": qp, "choices": x.Choices(), "schedule": x.Schedule()}
				if x.Deadlock || len(x.Panics) > 0 || x.Hung != "" || x.Diverged != "" {
					rep.Violation("C18|map-element-readers|abnormal", fmt.Sprintf("two readers: deadlock=%v panics=%v hung=%q diverged=%q", x.Deadlock, x.Panics, x.Hung, x.Diverged), replay)
					return
				}
				for r := range got {
					if got[r] != want[r] {
						rep.Violation("C18|map-element-readers|wrong-answer|"+qp[r], fmt.Sprintf("reader %d evaluating %q while another reader evaluated %q got %s, serially %s", r, qp[r], qp[1-r], got[r], want[r]), replay)
						return
					}
				}
				rep.Outcome("map-element-readers-agree")
			}
			ex3.Explore()
			total += ex3.Executions
			if ex3.Capped {
				rep.Capped("map-element readers: execution cap hit")
			}
		}
		_ = mdb.Close()
		rep.Count("states", int64(total))
		rep.Set("schedules_map_element_readers", total)
	}

	// ---- helpers under every schedule and pool answer
	c18Helpers(rep, w, bound)

	// ---- data races: free-running -race build of the same bodies
	c18RacePass(rep, thorough)
	rep.Count("traces_validated_against_impl", int64(ex.Executions))
	return rep.Finish()
}

func pathOf(s boltz.EntitySymbol) string {
	if s == nil {
		return "<nil>"
	}
	return strings.Join(s.GetPath(), "/")
}

// helperBodies are the package-level helpers named by the property; each returns a printable result.
var c18Fresh int64

func helperBodies(w *cWorld) map[string]func() string {
	refErr := boltz.NewReferenceByIdError("a", "1", "b", "2", "f")
	dupErr := &boltz.UniqueIndexDuplicateError{Field: "f", Value: "v", EntityType: "t"}
	nfErr := boltz.NewNotFoundError("t", "id", "1")
	wrapped := fmt.Errorf("wrapped: %w", refErr)
	return map[string]func() string{
		"Parse(valid)": func() string {
			q, err := ast.Parse(w.items, `anyOf(roles) = "a" and ver > 0 sort by name limit 2`)
			return fmt.Sprintf("%v/%v", q, err)
		},
		"Parse(invalid)": func() string {
			_, err := ast.Parse(w.items, `name = = "x" #`)
			return fmt.Sprintf("%v", err)
		},
		"Parse(type error)": func() string {
			_, err := ast.Parse(w.items, `ver contains true`)
			return fmt.Sprintf("%v", err != nil)
		},
		"GetSymbol(set)+iterate": func() string {
			s := w.items.GetSymbol("roles")
			s2 := w.items.GetSymbol("places.label")
			return fmt.Sprintf("%v/%v/%v", s != nil && s.IsSet(), s2 != nil, w.items.GetSymbol("nosuch") == nil)
		},
		// two DIFFERENT elements of the same map symbol: element symbols are created on demand from one shared map symbol
		"GetSymbol(map element k)+Parse": func() string {
			s := w.items.GetSymbol("tags.k")
			q, err := ast.Parse(w.items, `tags.k = "a"`)
			return fmt.Sprintf("%v/%v/%v", s != nil && s.GetName() == "tags.k", q, err)
		},
		"GetSymbol(map element j)+Parse": func() string {
			s := w.items.GetSymbol("tags.j")
			q, err := ast.Parse(w.items, `tags.j = 5`)
			return fmt.Sprintf("%v/%v/%v", s != nil && s.GetName() == "tags.j", q, err)
		},
		// elements of two map symbols registered below one shared path (a caller-built slice with spare capacity)
		"GetSymbol(nested element of a map below a shared path)": func() string {
			s := w.items.GetSymbol("deep.home.city")
			return fmt.Sprintf("%v/%v", s != nil && s.GetName() == "deep.home.city", pathOf(s))
		},
		"GetSymbol(element of the sibling map below the shared path)": func() string {
			s := w.items.GetSymbol("wide.color")
			return fmt.Sprintf("%v/%v", s != nil && s.GetName() == "wide.color", pathOf(s))
		},
		// public-symbol resolution, each call with an element name of the public map symbol that was never asked before
		"IsPublicSymbol/ValidateSymbolsArePublic(fresh map element)": func() string {
			n := atomic.AddInt64(&c18Fresh, 1)
			el := "tags.f" // identifiers of the grammar have no digits: spell the counter with letters
			for ; n > 0; n /= 26 {
				el += string(rune('a' + n%26))
			}
			q, err := ast.Parse(w.items, el+` = "a" and name != "zz"`)
			if err != nil {
				return "parse failed"
			}
			return fmt.Sprintf("%v/%v/%v/%v", w.items.IsPublicSymbol(el), w.items.IsPublicSymbol("ver"), boltz.ValidateSymbolsArePublic(q, w.items), len(w.items.GetPublicSymbols()) >= 2)
		},
		"GetPublicSymbols": func() string {
			l := append([]string{}, w.items.GetPublicSymbols()...)
			sort.Strings(l)
			var known []string
			for _, x := range l {
				if !strings.HasPrefix(x, "tags.") {
					known = append(known, x)
				}
			}
			return strings.Join(known, ",")
		},
		"IsReferenceExistsError": func() string {
			return fmt.Sprintf("%v/%v/%v", boltz.IsReferenceExistsError(refErr), boltz.IsReferenceExistsError(wrapped), boltz.IsReferenceExistsError(dupErr))
		},
		"IsUniqueIndexDuplicateError": func() string {
			return fmt.Sprintf("%v/%v", boltz.IsUniqueIndexDuplicateError(dupErr), boltz.IsUniqueIndexDuplicateError(nfErr))
		},
		"IsErrNotFoundErr": func() string {
			return fmt.Sprintf("%v/%v", boltz.IsErrNotFoundErr(nfErr), boltz.IsErrNotFoundErr(errors.New("x")))
		},
	}
}

func c18Helpers(rep *report.Report, w *cWorld, bound int) {
	bodies := helperBodies(w)
	var names []string
	for n := range bodies {
		names = append(names, n)
	}
	sort.Strings(names)
	want := map[string]string{}
	for _, n := range names {
		want[n] = bodies[n]()
	}
	total := 0
	for i, a := range names {
		for _, b := range names[i:] {
			results := map[string]string{}
			ex := &vsched.Explorer{Bound: bound, MaxSteps: 4000, MaxExecs: 20000}
			ex.Body = func() func() {
				results = map[string]string{}
				return func() {
					vsync.Go0(func() { results["1:"+a] = bodies[a]() })
					vsync.Go0(func() { results["2:"+b] = bodies[b]() })
				}
			}
			ex.Check = func(x *vsched.Execution) {
				replay := map[string]interface{}{"bodies": []string{a, b}, "choices": x.Choices(), "schedule": x.Schedule()}
				if x.Deadlock || len(x.Panics) > 0 || x.Hung != "" || x.Diverged != "" {
					rep.Violation("C18|helpers|"+a+"+"+b+"|abnormal", fmt.Sprintf("helpers %s || %s: deadlock=%v panics=%v hung=%q diverged=%q", a, b, x.Deadlock, x.Panics, x.Hung, x.Diverged), replay)
					return
				}
				if results["1:"+a] != want[a] || results["2:"+b] != want[b] {
					rep.Violation("C18|helpers|"+a+"+"+b+"|result", fmt.Sprintf("helpers %s || %s returned %q / %q, sequentially %q / %q", a, b, results["1:"+a], results["2:"+b], want[a], want[b]), replay)
				}
			}
			ex.Explore()
			total += ex.Executions
			if ex.Capped {
				rep.Capped("helpers " + a + "+" + b + ": execution cap hit")
			}
		}
	}
	rep.Set("schedules_helpers", total)
	rep.Count("states", int64(total))
	rep.Outcome("helpers-agree")
}

// RaceBodies runs every unordered pair of bodies free-running (real goroutines). It is the entry
// point of the -race build (vcheck -probe race).
func RaceBodies() int {
	w := newCWorld()
	dir := explore.TmpDir("c18race")
	defer os.RemoveAll(dir)
	base := dir + "/base.db"
	w.buildBase(base)
	db, err := boltz.Open(base, "root")
	if err != nil {
		panic(err)
	}
	defer db.Close()
	bodies := helperBodies(w)
	ver := int64(10)
	var verMu sync.Mutex
	bodies["reader(View: query+index+links)"] = func() string {
		var t string
		_ = db.View(func(tx *bbolt.Tx) error { t = w.readTuple(tx, noYield); return nil })
		return t
	}
	bodies["reader(QueryIds parse+scan)"] = func() string {
		var t string
		_ = db.View(func(tx *bbolt.Tx) error {
			ids, _, err := w.items.QueryIds(tx, `anyOf(roles) = "b" or name = "N1"`)
			t = fmt.Sprint(ids, err)
			return nil
		})
		return t
	}
	bodies["reader(dotted set symbol query)"] = func() string {
		var t string
		_ = db.View(func(tx *bbolt.Tx) error {
			ids, _, err := w.items.QueryIds(tx, `anyOf(places.label) = "L" or anyOf(places.id) = "l2"`)
			t = fmt.Sprint(ids, err)
			return nil
		})
		return t
	}
	bodies["reader(fk-first dotted set symbol query)"] = func() string {
		var t string
		_ = db.View(func(tx *bbolt.Tx) error {
			ids, _, err := w.items.QueryIds(tx, `anyOf(peer.places.label) = "L" and anyOf(peer.places.id) = "l1"`)
			t = fmt.Sprint(ids, err)
			return nil
		})
		return t
	}
	bodies["reader(map element k query)"] = func() string {
		var t string
		_ = db.View(func(tx *bbolt.Tx) error {
			ids, _, err := w.items.QueryIds(tx, `tags.k = "a"`)
			t = fmt.Sprint(ids, err)
			return nil
		})
		return t
	}
	bodies["reader(map element j query)"] = func() string {
		var t string
		_ = db.View(func(tx *bbolt.Tx) error {
			ids, _, err := w.items.QueryIds(tx, `tags.j = 5 and tags.k != "zz"`)
			t = fmt.Sprint(ids, err)
			return nil
		})
		return t
	}
	// bodies whose answer no writer body changes: their free-running result must equal the sequential one
	stable := map[string]string{}
	for n, f := range bodies {
		if !strings.HasPrefix(n, "reader(View") && !strings.HasPrefix(n, "reader(QueryIds") {
			stable[n] = f()
		}
	}
	var wrongMu sync.Mutex
	wrong := map[string]string{}
	bodies["writer(Update)"] = func() string {
		verMu.Lock()
		ver++
		v := ver
		verMu.Unlock()
		err := db.Update(nil, func(ctx boltz.MutateContext) error {
			return w.items.Update(ctx, w.item("i1", "N1", []string{"a"}, v), nil)
		})
		return fmt.Sprint(err)
	}
	var names []string
	for n := range bodies {
		names = append(names, n)
	}
	sort.Strings(names)
	pairs := 0
	for i, a := range names {
		for _, b := range names[i:] {
			pairs++
			for rep := 0; rep < 20; rep++ {
				var wg sync.WaitGroup
				for _, n := range []string{a, b, a} {
					n := n
					wg.Add(1)
					go func() {
						defer wg.Done()
						for k := 0; k < 5; k++ {
							got := bodies[n]()
							if want, ok := stable[n]; ok && got != want {
								wrongMu.Lock()
								wrong[n] = fmt.Sprintf("free-running next to %q/%q: %q, sequentially %q", a, b, got, want)
								wrongMu.Unlock()
							}
						}
					}()
				}
				wg.Wait()
			}
		}
	}
	fmt.Printf("race-pass: %d bodies, %d unordered pairs, 20 repetitions x 3 goroutines x 5 calls each\n", len(names), pairs)
	for n, m := range wrong {
		fmt.Printf("WRONG-RESULT body=%s %s\n", n, m)
	}
	if len(wrong) > 0 {
		return 3
	}
	return 0
}

func c18RacePass(rep *report.Report, thorough bool) {
	bin := os.Getenv("VERIF_RACE_BIN")
	if bin == "" {
		bin = report.Root + "/.build/vcheck-race"
	}
	if _, err := os.Stat(bin); err != nil {
		rep.Capped("race pass: -race binary not found at " + bin + " (run through run.sh)")
		return
	}
	cmd := exec.Command(bin, "-probe", "race")
	cmd.Env = append(os.Environ(), "GORACE=halt_on_error=0 exitcode=0")
	out, err := cmd.CombinedOutput()
	text := string(out)
	races := strings.Count(text, "WARNING: DATA RACE")
	rep.Set("race_reports", races)
	for _, l := range strings.Split(text, "\n") {
		if strings.HasPrefix(l, "race-pass:") {
			rep.Set("race_pass", l)
		}
	}
	wrongResults := 0
	for _, l := range strings.Split(text, "\n") {
		if strings.HasPrefix(l, "WRONG-RESULT ") {
			wrongResults++
			body := strings.SplitN(strings.TrimPrefix(l, "WRONG-RESULT body="), " free-running", 2)[0]
			rep.Violation("C18|free-running-wrong-result|"+body, l, nil)
		}
	}
	if err != nil && races == 0 && wrongResults == 0 {
		rep.Violation("C18|race-pass-failed", "the -race pass failed: "+err.Error()+"\n"+tailStr(text, 2000), nil)
		return
	}
	// one finding per distinct pair of racing source locations
	seen := map[string]bool{}
	blocks := strings.Split(text, "WARNING: DATA RACE")
	for _, b := range blocks[1:] {
		var locs []string
		for _, l := range strings.Split(b, "\n") {
			l = strings.TrimSpace(l)
			if strings.HasPrefix(l, "/repo/") {
				if i := strings.Index(l, " "); i > 0 {
					l = l[:i]
				}
				locs = append(locs, l)
				if len(locs) == 2 {
					break
				}
			}
		}
		sort.Strings(locs)
		key := strings.Join(locs, " <-> ")
		if key == "" || seen[key] {
			continue
		}
		seen[key] = true
		rep.Violation("C18|data-race|"+key, "the race detector reports a data race in openziti/storage between "+key+"\n"+tailStr(b, 1500), map[string]interface{}{"locations": locs})
	}
	rep.Outcome(fmt.Sprintf("race-pass-completed-with-%d-distinct-races", len(seen)))
}

func tailStr(s string, n int) string {
	if len(s) > n {
		return s[:n]
	}
	return s
}
