package checks

import (
	"bytes"
	"fmt"
	"runtime"
	"sort"
	"strings"
	"sync"

	"github.com/openziti/foundation/v2/errorz"
	"github.com/openziti/storage/ast"
	"github.com/openziti/storage/boltz"
	"go.etcd.io/bbolt"
	"verif/explore"
	"verif/report"
	"verif/world"
)

// ---------------------------------------------------------------------------------------------
// C14 — every set cursor enumerates its set exactly, in order, and seeks correctly.

type c14World struct {
	hub, items *world.Store
	// things / thingsExt: a parent store and an EXTENDED child store; only some things carry extended data, the
	// others (several in a row, before, between and after them) must be skipped by the child's valid-id cursor
	things, thingsExt *world.Store
	rolesIdx          boltz.SetReadIndex
	labelsIdx         boltz.SetReadIndex
	lh                boltz.LinkCollection
	rh                boltz.RefCountedLinkCollection
	dir               string
	db                *boltz.DbImpl
}

func newC14World() *c14World {
	w := &c14World{}
	w.hub = world.NewStore(&world.Spec{EntityType: "hubs", BasePath: []string{"root"}, Fields: []world.Field{
		{Name: "label", Kind: world.KString}, {Name: "vals", Kind: world.KStringList}, {Name: "labels", Kind: world.KStringList}}})
	w.items = world.NewStore(&world.Spec{EntityType: "items", BasePath: []string{"root"}, Fields: []world.Field{
		{Name: "label", Kind: world.KString}, {Name: "roles", Kind: world.KStringList}, {Name: "owner", Kind: world.KStringP}}})
	w.hub.AddIdSymbol("id", ast.NodeTypeString)
	w.hub.AddSetSymbol("vals", ast.NodeTypeString)
	w.labelsIdx = w.hub.AddSetIndex(w.hub.AddSetSymbol("labels", ast.NodeTypeString))
	w.items.AddIdSymbol("id", ast.NodeTypeString)
	w.rolesIdx = w.items.AddSetIndex(w.items.AddSetSymbol("roles", ast.NodeTypeString))
	owner := w.items.AddFkSymbol("owner", w.hub)
	back := w.hub.AddFkSetSymbol("items", w.items)
	w.items.AddNullableFkIndex(owner, back)
	symHL := w.hub.AddFkSetSymbol("litems", w.items)
	symLH := w.items.AddFkSetSymbol("lhubs", w.hub)
	w.lh = w.hub.AddLinkCollection(symHL, symLH)
	w.items.AddLinkCollection(symLH, symHL)
	symRHL := w.hub.AddFkSetSymbol("ritems", w.items)
	symRLH := w.items.AddFkSetSymbol("rhubs", w.hub)
	w.rh = w.hub.AddRefCountedLinkCollection(symRHL, symRLH)
	w.items.AddRefCountedLinkCollection(symRLH, symRHL)
	w.things = world.NewStore(&world.Spec{EntityType: "things", BasePath: []string{"root"}, Fields: []world.Field{{Name: "label", Kind: world.KString}}})
	w.things.AddIdSymbol("id", ast.NodeTypeString)
	w.thingsExt = world.NewStore(&world.Spec{Parent: w.things, ChildPath: []string{"ext"}, Extended: true, Fields: []world.Field{
		{Name: "label", Kind: world.KString}, {Name: "x", Kind: world.KStringP, Child: true}}})
	w.things.GrantSymbols(w.thingsExt)
	w.dir = explore.TmpDir("c14")
	db, err := boltz.Open(w.dir+"/c14.db", "root")
	if err != nil {
		panic(err)
	}
	w.db = db
	err = db.Update(nil, func(ctx boltz.MutateContext) error {
		h := &errorz.ErrorHolderImpl{}
		w.hub.InitializeIndexes(ctx.Tx(), h)
		w.items.InitializeIndexes(ctx.Tx(), h)
		w.things.InitializeIndexes(ctx.Tx(), h)
		return h.GetError()
	})
	if err != nil {
		panic(err)
	}
	return w
}

// c14ParentOnly: ids of things without extended data - two in a row before, between and after the candidate ids
var c14ParentOnly = []string{"!1", "!2", "a!", "a!!", "aa", "aaa", "c", "d"}

func (w *c14World) close() {
	_ = w.db.Close()
	removeAll(w.dir)
}

// refCursor is the reference: a sorted slice in iteration order.
type refCursor struct {
	elems   [][]byte
	pos     int
	reverse bool
}

func newRefCursor(set []string, reverse bool) *refCursor {
	s := append([]string{}, set...)
	sort.Strings(s)
	if reverse {
		for i, j := 0, len(s)-1; i < j; i, j = i+1, j-1 {
			s[i], s[j] = s[j], s[i]
		}
	}
	r := &refCursor{reverse: reverse}
	for _, e := range s {
		r.elems = append(r.elems, []byte(e))
	}
	return r
}

func (r *refCursor) valid() bool     { return r.pos < len(r.elems) }
func (r *refCursor) current() []byte { return r.elems[r.pos] }
func (r *refCursor) next()           { r.pos++ }
func (r *refCursor) seek(v []byte) {
	r.pos = len(r.elems)
	for i, e := range r.elems {
		c := bytes.Compare(e, v)
		if (!r.reverse && c >= 0) || (r.reverse && c <= 0) {
			r.pos = i
			return
		}
	}
}

type c14Kind struct {
	name     string
	reverse  bool
	seek     string // "", "seek", "seekToString"
	elements func(E []string) []string
	open     func(tx *bbolt.Tx) ast.SetCursor
}

type sliceCursor struct {
	vals [][]byte
}

func (c *sliceCursor) Next()           { c.vals = c.vals[1:] }
func (c *sliceCursor) IsValid() bool   { return len(c.vals) > 0 }
func (c *sliceCursor) Current() []byte { return c.vals[0] }

func withoutEmpty(E []string) []string {
	var out []string
	for _, e := range E {
		if e != "" {
			out = append(out, e)
		}
	}
	return out
}

func hasRole(items []string, id, role string) bool {
	for i, it := range items {
		if it == id {
			switch role {
			case "all":
				return true
			case "p":
				return i%2 == 0
			case "q":
				return i%2 == 1 || i%3 == 0
			}
		}
	}
	return false
}

func (w *c14World) populate(ctx boltz.MutateContext, E []string) error {
	tx := ctx.Tx()
	Ep := withoutEmpty(E)
	raw := boltz.GetOrCreatePath(tx, "root", "raw")
	typed := boltz.GetOrCreatePath(tx, "root", "typed")
	ua := boltz.GetOrCreatePath(tx, "root", "ua")
	ub := boltz.GetOrCreatePath(tx, "root", "ub")
	for i, e := range Ep {
		raw.PutValue([]byte(e), []byte("v"))
		if i%2 == 0 || i%3 == 0 {
			ua.PutValue([]byte(e), []byte("v"))
		}
		if i%2 == 1 || i%3 == 0 {
			ub.PutValue([]byte(e), []byte("v"))
		}
	}
	for _, e := range E {
		typed.SetListEntry(boltz.TypeString, []byte(e))
	}
	for _, b := range []*boltz.TypedBucket{raw, typed, ua, ub} {
		if b.HasError() {
			return b.GetError()
		}
	}
	if err := w.hub.Create(ctx, world.NewRec("hubs", "H").With("label", "L").With("vals", append([]string{}, E...)).With("labels", append([]string{}, Ep...))); err != nil {
		return err
	}
	for _, id := range Ep {
		roles := []string{"all"}
		for _, r := range []string{"p", "q"} {
			if hasRole(Ep, id, r) {
				roles = append(roles, r)
			}
		}
		if err := w.items.Create(ctx, world.NewRec("items", id).With("label", "L").With("roles", roles).With("owner", "H")); err != nil {
			return err
		}
		if err := w.lh.AddLinks(tx, "H", id); err != nil {
			return err
		}
		if _, err := w.rh.IncrementLinkCount(tx, []byte("H"), []byte(id)); err != nil {
			return err
		}
		x := "x"
		if err := w.thingsExt.Create(ctx, world.NewRec("things", id).With("label", "L").With("x", x)); err != nil {
			return err
		}
	}
	for _, id := range c14ParentOnly {
		if err := w.things.Create(ctx, world.NewRec("things", id).With("label", "L")); err != nil {
			return err
		}
	}
	return nil
}

func (w *c14World) kinds(E []string) []c14Kind {
	Ep := withoutEmpty(E)
	all := func([]string) []string { return E }
	nonEmpty := func([]string) []string { return Ep }
	withRole := func(roles ...string) func([]string) []string {
		return func([]string) []string {
			var out []string
			for _, id := range Ep {
				ok := true
				for _, r := range roles {
					if !hasRole(Ep, id, r) {
						ok = false
					}
				}
				if ok {
					out = append(out, id)
				}
			}
			return out
		}
	}
	anyRole := func(roles ...string) func([]string) []string {
		return func([]string) []string {
			var out []string
			for _, id := range Ep {
				for _, r := range roles {
					if hasRole(Ep, id, r) {
						out = append(out, id)
						break
					}
				}
			}
			return out
		}
	}
	bucket := func(tx *bbolt.Tx, name string) *boltz.TypedBucket { return boltz.Path(tx, "root", name) }
	var ks []c14Kind
	add := func(k c14Kind) { ks = append(ks, k) }
	for _, rev := range []bool{false, true} {
		rev := rev
		dir := map[bool]string{false: "forward", true: "reverse"}[rev]
		add(c14Kind{"TypedBucket.OpenCursor/" + dir, rev, "seek", nonEmpty, func(tx *bbolt.Tx) ast.SetCursor { return bucket(tx, "raw").OpenCursor(tx, !rev) }})
		add(c14Kind{"TypedBucket.OpenTypedCursor/" + dir, rev, "seek", all, func(tx *bbolt.Tx) ast.SetCursor { return bucket(tx, "typed").OpenTypedCursor(tx, !rev) }})
		add(c14Kind{"TypedBucket.IterateStringListInDirection/" + dir, rev, "seek", all, func(tx *bbolt.Tx) ast.SetCursor { return bucket(tx, "typed").IterateStringListInDirection(!rev) }})
		add(c14Kind{"SetReadIndex.OpenValueCursor/" + dir, rev, "seek", nonEmpty, func(tx *bbolt.Tx) ast.SetCursor { return w.rolesIdx.OpenValueCursor(tx, []byte("all"), !rev) }})
		add(c14Kind{"SetReadIndex.OpenValueCursor(absent key)/" + dir, rev, "", func([]string) []string { return nil }, func(tx *bbolt.Tx) ast.SetCursor { return w.rolesIdx.OpenValueCursor(tx, []byte("nosuch"), !rev) }})
		add(c14Kind{"SetReadIndex.OpenKeyCursor/" + dir, rev, "seek", nonEmpty, func(tx *bbolt.Tx) ast.SetCursor { return w.labelsIdx.OpenKeyCursor(tx, !rev) }})
		add(c14Kind{"Store.GetRelatedEntitiesCursor/" + dir, rev, "seek", nonEmpty, func(tx *bbolt.Tx) ast.SetCursor { return w.hub.GetRelatedEntitiesCursor(tx, "H", "items", !rev) }})
		add(c14Kind{"Store.GetRelatedEntitiesCursor(missing entity)/" + dir, rev, "", func([]string) []string { return nil }, func(tx *bbolt.Tx) ast.SetCursor { return w.hub.GetRelatedEntitiesCursor(tx, "nosuch", "items", !rev) }})
		add(c14Kind{"RefCountedLinkCollection.IterateLinks/" + dir, rev, "seek", nonEmpty, func(tx *bbolt.Tx) ast.SetCursor { return w.rh.IterateLinks(tx, []byte("H"), !rev) }})
		add(c14Kind{"IteratorMatchingAnyOf[1 value]/" + dir, rev, "seek", nonEmpty, func(tx *bbolt.Tx) ast.SetCursor {
			return w.items.IteratorMatchingAnyOf(w.rolesIdx, []string{"all"})(tx, !rev)
		}})
		add(c14Kind{"IteratorMatchingAllOf[1 value]/" + dir, rev, "seek", nonEmpty, func(tx *bbolt.Tx) ast.SetCursor {
			return w.items.IteratorMatchingAllOf(w.rolesIdx, []string{"all"})(tx, !rev)
		}})
		add(c14Kind{"IteratorMatchingAllOf[2 values]/" + dir, rev, "", withRole("all", "p"), func(tx *bbolt.Tx) ast.SetCursor {
			return w.items.IteratorMatchingAllOf(w.rolesIdx, []string{"all", "p"})(tx, !rev)
		}})
		add(c14Kind{"IteratorMatchingAllOf[2 values, second absent]/" + dir, rev, "", func([]string) []string { return nil }, func(tx *bbolt.Tx) ast.SetCursor {
			return w.items.IteratorMatchingAllOf(w.rolesIdx, []string{"all", "zz"})(tx, !rev)
		}})
		add(c14Kind{"IteratorMatchingAnyOf[2 values]/" + dir, rev, "", anyRole("p", "q"), func(tx *bbolt.Tx) ast.SetCursor {
			return w.items.IteratorMatchingAnyOf(w.rolesIdx, []string{"p", "q"})(tx, !rev)
		}})
		add(c14Kind{"IteratorMatchingAnyOf[2 values, one absent]/" + dir, rev, "", anyRole("p"), func(tx *bbolt.Tx) ast.SetCursor {
			return w.items.IteratorMatchingAnyOf(w.rolesIdx, []string{"p", "zz"})(tx, !rev)
		}})
		add(c14Kind{"IteratorMatchingAnyOf[2 values, first absent]/" + dir, rev, "", anyRole("p"), func(tx *bbolt.Tx) ast.SetCursor {
			return w.items.IteratorMatchingAnyOf(w.rolesIdx, []string{"zz", "p"})(tx, !rev)
		}})
		add(c14Kind{"IteratorMatchingAnyOf[3 values, only the middle one present]/" + dir, rev, "", anyRole("p"), func(tx *bbolt.Tx) ast.SetCursor {
			return w.items.IteratorMatchingAnyOf(w.rolesIdx, []string{"yy", "p", "zz"})(tx, !rev)
		}})
		add(c14Kind{"IteratorMatchingAllOf[2 values, first absent]/" + dir, rev, "", func([]string) []string { return nil }, func(tx *bbolt.Tx) ast.SetCursor {
			return w.items.IteratorMatchingAllOf(w.rolesIdx, []string{"zz", "all"})(tx, !rev)
		}})
		add(c14Kind{"IteratorMatchingAllOf[2 values, reversed order]/" + dir, rev, "", withRole("all", "p"), func(tx *bbolt.Tx) ast.SetCursor {
			return w.items.IteratorMatchingAllOf(w.rolesIdx, []string{"p", "all"})(tx, !rev)
		}})
		add(c14Kind{"IteratorMatchingAnyOf[2 values, none present]/" + dir, rev, "", func([]string) []string { return nil }, func(tx *bbolt.Tx) ast.SetCursor {
			return w.items.IteratorMatchingAnyOf(w.rolesIdx, []string{"zz", "yy"})(tx, !rev)
		}})
		// three values in every order (the values after the first are checked against each row's own, sorted, list)
		for _, perm := range [][]string{{"all", "p", "q"}, {"all", "q", "p"}, {"p", "all", "q"}, {"p", "q", "all"}, {"q", "all", "p"}, {"q", "p", "all"}} {
			perm := perm
			add(c14Kind{fmt.Sprintf("IteratorMatchingAllOf[3 values in the order %v]/%s", perm, dir), rev, "", withRole("all", "p", "q"), func(tx *bbolt.Tx) ast.SetCursor {
				return w.items.IteratorMatchingAllOf(w.rolesIdx, append([]string{}, perm...))(tx, !rev)
			}})
		}
		add(c14Kind{"IteratorMatchingAllOf[3 values, the last one twice]/" + dir, rev, "", withRole("all", "p", "q"), func(tx *bbolt.Tx) ast.SetCursor {
			return w.items.IteratorMatchingAllOf(w.rolesIdx, []string{"q", "p", "all", "all"})(tx, !rev)
		}})
		add(c14Kind{"IteratorMatchingAnyOf[3 values, descending]/" + dir, rev, "", anyRole("q", "p", "all"), func(tx *bbolt.Tx) ast.SetCursor {
			return w.items.IteratorMatchingAnyOf(w.rolesIdx, []string{"q", "p", "all"})(tx, !rev)
		}})
		add(c14Kind{"IteratorMatchingAnyOf[0 values]/" + dir, rev, "", func([]string) []string { return nil }, func(tx *bbolt.Tx) ast.SetCursor { return w.items.IteratorMatchingAnyOf(w.rolesIdx, nil)(tx, !rev) }})
		add(c14Kind{"ast.TreeSet.ToCursor/" + dir, rev, "", all, func(tx *bbolt.Tx) ast.SetCursor {
			ts := ast.NewTreeSet(!rev)
			for _, e := range E {
				ts.Add([]byte(e))
			}
			return ts.ToCursor()
		}})
		add(c14Kind{"ast.NewUnionSetCursor/" + dir, rev, "", nonEmpty, func(tx *bbolt.Tx) ast.SetCursor {
			return ast.NewUnionSetCursor(bucket(tx, "ua").OpenCursor(tx, !rev), bucket(tx, "ub").OpenCursor(tx, !rev), !rev)
		}})
		add(c14Kind{"ast.NewUnionSetCursor(one side empty)/" + dir, rev, "", nonEmpty, func(tx *bbolt.Tx) ast.SetCursor {
			return ast.NewUnionSetCursor(ast.NewEmptyCursor(), bucket(tx, "raw").OpenCursor(tx, !rev), !rev)
		}})
	}
	add(c14Kind{"TypedBucket.OpenSeekableCursor", false, "seek", nonEmpty, func(tx *bbolt.Tx) ast.SetCursor { return bucket(tx, "raw").OpenSeekableCursor() }})
	add(c14Kind{"TypedBucket.IterateStringList", false, "seek", all, func(tx *bbolt.Tx) ast.SetCursor { return bucket(tx, "typed").IterateStringList() }})
	add(c14Kind{"LinkCollection.IterateLinks", false, "seek", nonEmpty, func(tx *bbolt.Tx) ast.SetCursor { return w.lh.IterateLinks(tx, []byte("H")) }})
	add(c14Kind{"LinkCollection.IterateLinks(missing entity)", false, "", func([]string) []string { return nil }, func(tx *bbolt.Tx) ast.SetCursor { return w.lh.IterateLinks(tx, []byte("nosuch")) }})
	add(c14Kind{"set symbol runtime cursor (hub.vals)", false, "seekToString", all, func(tx *bbolt.Tx) ast.SetCursor {
		return w.hub.GetSymbol("vals").(boltz.RuntimeEntitySetSymbol).OpenCursor(tx, []byte("H"))
	}})
	add(c14Kind{"set symbol runtime cursor (missing entity)", false, "", func([]string) []string { return nil }, func(tx *bbolt.Tx) ast.SetCursor {
		return w.hub.GetSymbol("vals").(boltz.RuntimeEntitySetSymbol).OpenCursor(tx, []byte("nosuch"))
	}})
	// one runtime symbol re-used across rows, as a scan does: the cursor of the previous row must not leak
	add(c14Kind{"set symbol runtime cursor re-opened (row H, then a row without the set)", false, "seekToString", func([]string) []string { return nil }, func(tx *bbolt.Tx) ast.SetCursor {
		s := w.hub.GetSymbol("vals").(boltz.RuntimeEntitySetSymbol)
		s.OpenCursor(tx, []byte("H"))
		return s.OpenCursor(tx, []byte("nosuch"))
	}})
	add(c14Kind{"set symbol runtime cursor re-opened (row without the set, then row H)", false, "seekToString", all, func(tx *bbolt.Tx) ast.SetCursor {
		s := w.hub.GetSymbol("vals").(boltz.RuntimeEntitySetSymbol)
		s.OpenCursor(tx, []byte("nosuch"))
		return s.OpenCursor(tx, []byte("H"))
	}})
	add(c14Kind{"set symbol runtime cursor re-opened (row H advanced by one, then row H again)", false, "seekToString", all, func(tx *bbolt.Tx) ast.SetCursor {
		s := w.hub.GetSymbol("vals").(boltz.RuntimeEntitySetSymbol)
		if c := s.OpenCursor(tx, []byte("H")); c.IsValid() {
			c.Next()
		}
		return s.OpenCursor(tx, []byte("H"))
	}})
	if len(Ep) > 0 {
		first := Ep[0]
		add(c14Kind{"composite (stacked) cursor items.owner.vals", false, "", all, func(tx *bbolt.Tx) ast.SetCursor {
			return w.items.GetSymbol("owner.vals").(boltz.RuntimeEntitySetSymbol).OpenCursor(tx, []byte(first))
		}})
	}
	add(c14Kind{"composite (stacked) cursor hub.items.roles (bag of one element per item)", false, "", func([]string) []string {
		var out []string
		for _, id := range Ep {
			if hasRole(Ep, id, "p") {
				out = append(out, "p:"+id)
			}
		}
		return nil
	}, nil})
	add(c14Kind{"Store.IterateIds", false, "seek", nonEmpty, func(tx *bbolt.Tx) ast.SetCursor { return w.items.IterateIds(tx, ast.BoolNodeTrue) }})
	add(c14Kind{"Store.IterateValidIds", false, "seek", nonEmpty, func(tx *bbolt.Tx) ast.SetCursor { return w.items.IterateValidIds(tx, ast.BoolNodeTrue) }})
	add(c14Kind{"extended child store IterateValidIds (parent-only rows in runs of two around the set)", false, "seek", nonEmpty, func(tx *bbolt.Tx) ast.SetCursor {
		return w.thingsExt.IterateValidIds(tx, ast.BoolNodeTrue)
	}})
	add(c14Kind{"extended child store IterateIds (every parent row)", false, "seek", func([]string) []string { return append(append([]string{}, Ep...), c14ParentOnly...) }, func(tx *bbolt.Tx) ast.SetCursor {
		return w.thingsExt.IterateIds(tx, ast.BoolNodeTrue)
	}})
	add(c14Kind{"Store.IterateIds(filter false)", false, "seek", func([]string) []string { return nil }, func(tx *bbolt.Tx) ast.SetCursor { return w.items.IterateIds(tx, ast.NewBoolConstNode(false)) }})
	add(c14Kind{"ast.NewFilteredCursor(len<=1)", false, "", func([]string) []string {
		var out []string
		for _, e := range Ep {
			if len(e) <= 1 {
				out = append(out, e)
			}
		}
		return out
	}, func(tx *bbolt.Tx) ast.SetCursor {
		return ast.NewFilteredCursor(bucket(tx, "raw").OpenCursor(tx, true), func(v []byte) bool { return len(v) <= 1 })
	}})
	add(c14Kind{"ast.NewFilteredCursor(nothing passes)", false, "", func([]string) []string { return nil }, func(tx *bbolt.Tx) ast.SetCursor {
		return ast.NewFilteredCursor(bucket(tx, "raw").OpenCursor(tx, true), func(v []byte) bool { return false })
	}})
	add(c14Kind{"ast.NewEmptyCursor", false, "", func([]string) []string { return nil }, func(tx *bbolt.Tx) ast.SetCursor { return ast.NewEmptyCursor() }})
	add(c14Kind{"ast.EmptyCursor", false, "seek", func([]string) []string { return nil }, func(tx *bbolt.Tx) ast.SetCursor { return ast.EmptyCursor }})
	add(c14Kind{"ast.OpenEmptyCursor", false, "", func([]string) []string { return nil }, func(tx *bbolt.Tx) ast.SetCursor { return ast.OpenEmptyCursor(tx, true) }})
	var out []c14Kind
	for _, k := range ks {
		if k.open != nil {
			out = append(out, k)
		}
	}
	return out
}

func C14(tier string) int {
	rep := report.New("C14", tier, "exploration")
	maxSteps := 3
	if tier != "quick" {
		maxSteps = 4
	}
	universe := []string{"", "a", "a\x00", "ab", "b"}
	targets := []string{"", "\x00", "a", "a\x00", "aa", "ab", "b", "c"}
	rep.Assume("Next is never called on an invalid cursor; the set symbol runtime cursor is positioned through SeekToString (its plain Seek expects a storage-typed key)")
	rep.Set("rule", fmt.Sprintf("every subset of {\"\",a,a\\x00,ab,b} (32 sets incl. the empty set) x %d cursor kinds (forward/reverse, raw/typed, index value/key, related entities, links, ref-counted links, set symbol, stacked, IterateIds/ValidIds, MatchingAllOf/AnyOf with 0/1/2 values, filtered, tree, union, empty) x ALL scripts of <= %d steps over {Next, Seek(v) for 8 targets}; oracle = sorted-slice reference cursor compared after every step, then drained", len(newC14WorldKindsCount()), maxSteps))

	type step struct {
		seek bool
		v    string
	}
	var scripts [][]step
	var gen func(cur []step)
	gen = func(cur []step) {
		scripts = append(scripts, append([]step{}, cur...))
		if len(cur) == maxSteps {
			return
		}
		gen(append(cur, step{}))
		for _, t := range targets {
			gen(append(cur, step{true, t}))
		}
	}
	gen(nil)
	rep.Count("scripts", int64(len(scripts)))

	var wg sync.WaitGroup
	masks := make(chan int, 32)
	for wk := 0; wk < runtime.NumCPU(); wk++ {
		wg.Add(1)
		go func() {
			defer wg.Done()
			w := newC14World()
			defer w.close()
			for mask := range masks {
				var E []string
				for i, e := range universe {
					if mask&(1<<i) != 0 {
						E = append(E, e)
					}
				}
				setLabel := fmt.Sprintf("%q", E)
				// every (set, kind, script) runs twice: inside the transaction that wrote the set (dirty
				// nodes) and in a read transaction after the commit (committed pages)
				runAll := func(tx *bbolt.Tx, mode string) {
					for _, k := range w.kinds(E) {
						elems := k.elements(E)
						for _, sc := range scripts {
							if k.seek == "" {
								hasSeek := false
								for _, s := range sc {
									if s.seek {
										hasSeek = true
									}
								}
								if hasSeek {
									continue
								}
							}
							rep.Count("evaluations", 1)
							var trace []string
							problem := func() (problem string) {
								defer func() {
									if r := recover(); r != nil {
										problem = fmt.Sprintf("panic: %v", r)
									}
								}()
								c := k.open(tx)
								ref := newRefCursor(elems, k.reverse)
								cmp := func(at string) string {
									if c.IsValid() != ref.valid() {
										return fmt.Sprintf("after %s: IsValid()=%v, reference %v", at, c.IsValid(), ref.valid())
									}
									if ref.valid() && !bytes.Equal(c.Current(), ref.current()) {
										return fmt.Sprintf("after %s: Current()=%q, reference %q", at, c.Current(), ref.current())
									}
									return ""
								}
								if p := cmp("open"); p != "" {
									return p
								}
								for _, s := range sc {
									if s.seek {
										trace = append(trace, fmt.Sprintf("Seek(%q)", s.v))
										switch k.seek {
										case "seek":
											sk, ok := c.(ast.SeekableSetCursor)
											if !ok {
												return "cursor is not seekable although its kind is documented as seekable"
											}
											sk.Seek([]byte(s.v))
										case "seekToString":
											c.(ast.TypeSeekableSetCursor).SeekToString(s.v)
										}
										ref.seek([]byte(s.v))
									} else {
										if !ref.valid() {
											return "" // Next on an exhausted cursor is outside the alphabet
										}
										trace = append(trace, "Next")
										c.Next()
										ref.next()
									}
									if p := cmp(strings.Join(trace, ",")); p != "" {
										return p
									}
								}
								// drain
								for n := 0; ref.valid(); n++ {
									c.Next()
									ref.next()
									if p := cmp(strings.Join(trace, ",") + fmt.Sprintf(",drain+%d", n+1)); p != "" {
										return p
									}
								}
								return ""
							}()
							if problem != "" {
								class := "wrong-validity"
								switch {
								case strings.HasPrefix(problem, "panic"):
									class = "panic"
								case strings.Contains(problem, "Current()="):
									class = "wrong-element"
								case strings.Contains(problem, "not seekable"):
									class = "not-seekable"
								}
								if strings.Contains(problem, "Seek(") || strings.Contains(strings.Join(trace, ","), "Seek(") {
									class += "-after-seek"
								}
								sig := fmt.Sprintf("C14|%s|%s", k.name, class)
								rep.Violation(sig, fmt.Sprintf("%s over set %s [%s]: %s", k.name, setLabel, mode, problem), map[string]interface{}{"kind": k.name, "set": E, "script": trace, "pages": mode})
							}
						}
						rep.Outcome(k.name)
					}
				}
				_ = w.db.Update(nil, func(ctx boltz.MutateContext) error {
					if err := w.populate(ctx, E); err != nil {
						rep.Violation("C14|populate|"+setLabel, "cannot build the data for set "+setLabel+": "+err.Error(), nil)
						return errSkip
					}
					runAll(ctx.Tx(), "uncommitted")
					return errSkip
				})
				if err := w.db.Update(nil, func(ctx boltz.MutateContext) error { return w.populate(ctx, E) }); err != nil {
					rep.Violation("C14|populate-committed|"+setLabel, "cannot build and commit the data for set "+setLabel+": "+err.Error(), nil)
				} else {
					_ = w.db.View(func(tx *bbolt.Tx) error { runAll(tx, "committed"); return nil })
				}
				if err := w.db.Update(nil, func(ctx boltz.MutateContext) error {
					if err := ctx.Tx().DeleteBucket([]byte("root")); err != nil && err != bbolt.ErrBucketNotFound {
						return err
					}
					h := &errorz.ErrorHolderImpl{}
					w.hub.InitializeIndexes(ctx.Tx(), h)
					w.items.InitializeIndexes(ctx.Tx(), h)
					return h.GetError()
				}); err != nil {
					rep.Violation("C14|reset|"+setLabel, "cannot reset the database: "+err.Error(), nil)
				}
				if mask == 21 {
					rep.Sample(map[string]interface{}{"set": E, "script": []string{"Seek(\"aa\")", "Next", "Seek(\"\")"}})
				}
			}
		}()
	}
	for mask := 0; mask < 1<<len(universe); mask++ {
		masks <- mask
	}
	close(masks)
	wg.Wait()
	rep.Set("evaluations", rep.Get("evaluations"))
	rep.Set("distinct_nontrivial", int(rep.Get("evaluations")))
	return rep.Finish()
}

func newC14WorldKindsCount() []c14Kind {
	w := &c14World{}
	// kinds() only builds closures; counting does not touch a database
	defer func() { _ = recover() }()
	return w.kinds([]string{"a"})
}
