// Generated once from ast/visitor.go: counts which Visit* callbacks fire (typed node-kind coverage for C20).
package checks

import "github.com/openziti/storage/ast"

type kindVisitor struct {
	ast.DefaultVisitor
	seen    map[string]int
	symbols []string
}

func (v *kindVisitor) VisitNotExprNodeStart(node *ast.NotExprNode) {
	v.seen["VisitNotExprNodeStart"]++
}

func (v *kindVisitor) VisitNotExprNodeEnd(node *ast.NotExprNode) {
	v.seen["VisitNotExprNodeEnd"]++
}

func (v *kindVisitor) VisitAndExprNodeStart(node *ast.AndExprNode) {
	v.seen["VisitAndExprNodeStart"]++
}

func (v *kindVisitor) VisitAndExprNodeEnd(node *ast.AndExprNode) {
	v.seen["VisitAndExprNodeEnd"]++
}

func (v *kindVisitor) VisitOrExprNodeStart(node *ast.OrExprNode) {
	v.seen["VisitOrExprNodeStart"]++
}

func (v *kindVisitor) VisitOrExprNodeEnd(node *ast.OrExprNode) {
	v.seen["VisitOrExprNodeEnd"]++
}

func (v *kindVisitor) VisitBinaryBoolExprNodeStart(node *ast.BinaryBoolExprNode) {
	v.seen["VisitBinaryBoolExprNodeStart"]++
}

func (v *kindVisitor) VisitBinaryBoolExprNodeEnd(node *ast.BinaryBoolExprNode) {
	v.seen["VisitBinaryBoolExprNodeEnd"]++
}

func (v *kindVisitor) VisitBinaryDatetimeExprNodeStart(node *ast.BinaryDatetimeExprNode) {
	v.seen["VisitBinaryDatetimeExprNodeStart"]++
}

func (v *kindVisitor) VisitBinaryDatetimeExprNodeEnd(node *ast.BinaryDatetimeExprNode) {
	v.seen["VisitBinaryDatetimeExprNodeEnd"]++
}

func (v *kindVisitor) VisitBinaryFloat64ExprNodeStart(node *ast.BinaryFloat64ExprNode) {
	v.seen["VisitBinaryFloat64ExprNodeStart"]++
}

func (v *kindVisitor) VisitBinaryFloat64ExprNodeEnd(node *ast.BinaryFloat64ExprNode) {
	v.seen["VisitBinaryFloat64ExprNodeEnd"]++
}

func (v *kindVisitor) VisitBinaryInt64ExprNodeStart(node *ast.BinaryInt64ExprNode) {
	v.seen["VisitBinaryInt64ExprNodeStart"]++
}

func (v *kindVisitor) VisitBinaryInt64ExprNodeEnd(node *ast.BinaryInt64ExprNode) {
	v.seen["VisitBinaryInt64ExprNodeEnd"]++
}

func (v *kindVisitor) VisitBinaryStringExprNodeStart(node *ast.BinaryStringExprNode) {
	v.seen["VisitBinaryStringExprNodeStart"]++
}

func (v *kindVisitor) VisitBinaryStringExprNodeEnd(node *ast.BinaryStringExprNode) {
	v.seen["VisitBinaryStringExprNodeEnd"]++
}

func (v *kindVisitor) VisitIsNilExprNodeStart(node *ast.IsNilExprNode) {
	v.seen["VisitIsNilExprNodeStart"]++
}

func (v *kindVisitor) VisitIsNilExprNodeEnd(node *ast.IsNilExprNode) {
	v.seen["VisitIsNilExprNodeEnd"]++
}

func (v *kindVisitor) VisitInt64BetweenExprNodeStart(node *ast.Int64BetweenExprNode) {
	v.seen["VisitInt64BetweenExprNodeStart"]++
}

func (v *kindVisitor) VisitInt64BetweenExprNodeEnd(node *ast.Int64BetweenExprNode) {
	v.seen["VisitInt64BetweenExprNodeEnd"]++
}

func (v *kindVisitor) VisitFloat64BetweenExprNodeStart(node *ast.Float64BetweenExprNode) {
	v.seen["VisitFloat64BetweenExprNodeStart"]++
}

func (v *kindVisitor) VisitFloat64BetweenExprNodeEnd(node *ast.Float64BetweenExprNode) {
	v.seen["VisitFloat64BetweenExprNodeEnd"]++
}

func (v *kindVisitor) VisitDatetimeBetweenExprNodeStart(node *ast.DatetimeBetweenExprNode) {
	v.seen["VisitDatetimeBetweenExprNodeStart"]++
}

func (v *kindVisitor) VisitDatetimeBetweenExprNodeEnd(node *ast.DatetimeBetweenExprNode) {
	v.seen["VisitDatetimeBetweenExprNodeEnd"]++
}

func (v *kindVisitor) VisitInDatetimeArrayExprNodeStart(node *ast.InDatetimeArrayExprNode) {
	v.seen["VisitInDatetimeArrayExprNodeStart"]++
}

func (v *kindVisitor) VisitInDatetimeArrayExprNodeEnd(node *ast.InDatetimeArrayExprNode) {
	v.seen["VisitInDatetimeArrayExprNodeEnd"]++
}

func (v *kindVisitor) VisitInFloat64ArrayExprNodeStart(node *ast.InFloat64ArrayExprNode) {
	v.seen["VisitInFloat64ArrayExprNodeStart"]++
}

func (v *kindVisitor) VisitInFloat64ArrayExprNodeEnd(node *ast.InFloat64ArrayExprNode) {
	v.seen["VisitInFloat64ArrayExprNodeEnd"]++
}

func (v *kindVisitor) VisitInInt64ArrayExprNodeStart(node *ast.InInt64ArrayExprNode) {
	v.seen["VisitInInt64ArrayExprNodeStart"]++
}

func (v *kindVisitor) VisitInInt64ArrayExprNodeEnd(node *ast.InInt64ArrayExprNode) {
	v.seen["VisitInInt64ArrayExprNodeEnd"]++
}

func (v *kindVisitor) VisitInStringArrayExprNodeStart(node *ast.InStringArrayExprNode) {
	v.seen["VisitInStringArrayExprNodeStart"]++
}

func (v *kindVisitor) VisitInStringArrayExprNodeEnd(node *ast.InStringArrayExprNode) {
	v.seen["VisitInStringArrayExprNodeEnd"]++
}

func (v *kindVisitor) VisitBooleanLogicExprNodeStart(node *ast.BooleanLogicExprNode) {
	v.seen["VisitBooleanLogicExprNodeStart"]++
}

func (v *kindVisitor) VisitBooleanLogicExprNodeEnd(node *ast.BooleanLogicExprNode) {
	v.seen["VisitBooleanLogicExprNodeEnd"]++
}

func (v *kindVisitor) VisitBinaryExprNodeStart(node *ast.BinaryExprNode) {
	v.seen["VisitBinaryExprNodeStart"]++
}

func (v *kindVisitor) VisitBinaryExprNodeEnd(node *ast.BinaryExprNode) {
	v.seen["VisitBinaryExprNodeEnd"]++
}

func (v *kindVisitor) VisitInArrayExprNodeStart(node *ast.InArrayExprNode) {
	v.seen["VisitInArrayExprNodeStart"]++
}

func (v *kindVisitor) VisitInArrayExprNodeEnd(node *ast.InArrayExprNode) {
	v.seen["VisitInArrayExprNodeEnd"]++
}

func (v *kindVisitor) VisitBetweenExprNodeStart(node *ast.BetweenExprNode) {
	v.seen["VisitBetweenExprNodeStart"]++
}

func (v *kindVisitor) VisitBetweenExprNodeEnd(node *ast.BetweenExprNode) {
	v.seen["VisitBetweenExprNodeEnd"]++
}

func (v *kindVisitor) VisitUntypedSymbolNode(node *ast.UntypedSymbolNode) {
	v.seen["VisitUntypedSymbolNode"]++
}

func (v *kindVisitor) VisitSetFunctionNodeStart(node *ast.SetFunctionNode) {
	v.seen["VisitSetFunctionNodeStart"]++
}

func (v *kindVisitor) VisitSetFunctionNodeEnd(node *ast.SetFunctionNode) {
	v.seen["VisitSetFunctionNodeEnd"]++
}

func (v *kindVisitor) VisitUntypedNotExprStart(node *ast.UntypedNotExprNode) {
	v.seen["VisitUntypedNotExprStart"]++
}

func (v *kindVisitor) VisitUntypedNotExprEnd(node *ast.UntypedNotExprNode) {
	v.seen["VisitUntypedNotExprEnd"]++
}

func (v *kindVisitor) VisitBoolConstNode(node *ast.BoolConstNode) {
	v.seen["VisitBoolConstNode"]++
}

func (v *kindVisitor) VisitDatetimeConstNode(node *ast.DatetimeConstNode) {
	v.seen["VisitDatetimeConstNode"]++
}

func (v *kindVisitor) VisitFloat64ConstNode(node *ast.Float64ConstNode) {
	v.seen["VisitFloat64ConstNode"]++
}

func (v *kindVisitor) VisitInt64ConstNode(node *ast.Int64ConstNode) {
	v.seen["VisitInt64ConstNode"]++
}

func (v *kindVisitor) VisitStringConstNode(node *ast.StringConstNode) {
	v.seen["VisitStringConstNode"]++
}

func (v *kindVisitor) VisitNullConstNode(node ast.NullConstNode) {
	v.seen["VisitNullConstNode"]++
}

func (v *kindVisitor) VisitDatetimeArrayNodeStart(node *ast.DatetimeArrayNode) {
	v.seen["VisitDatetimeArrayNodeStart"]++
}

func (v *kindVisitor) VisitDatetimeArrayNodeEnd(node *ast.DatetimeArrayNode) {
	v.seen["VisitDatetimeArrayNodeEnd"]++
}

func (v *kindVisitor) VisitFloat64ArrayNodeStart(node *ast.Float64ArrayNode) {
	v.seen["VisitFloat64ArrayNodeStart"]++
}

func (v *kindVisitor) VisitFloat64ArrayNodeEnd(node *ast.Float64ArrayNode) {
	v.seen["VisitFloat64ArrayNodeEnd"]++
}

func (v *kindVisitor) VisitInt64ArrayNodeStart(node *ast.Int64ArrayNode) {
	v.seen["VisitInt64ArrayNodeStart"]++
}

func (v *kindVisitor) VisitInt64ArrayNodeEnd(node *ast.Int64ArrayNode) {
	v.seen["VisitInt64ArrayNodeEnd"]++
}

func (v *kindVisitor) VisitStringArrayNodeStart(node *ast.StringArrayNode) {
	v.seen["VisitStringArrayNodeStart"]++
}

func (v *kindVisitor) VisitStringArrayNodeEnd(node *ast.StringArrayNode) {
	v.seen["VisitStringArrayNodeEnd"]++
}

func (v *kindVisitor) VisitBoolSymbolNode(node *ast.BoolSymbolNode) {
	v.seen["VisitBoolSymbolNode"]++
}

func (v *kindVisitor) VisitDatetimeSymbolNode(node *ast.DatetimeSymbolNode) {
	v.seen["VisitDatetimeSymbolNode"]++
}

func (v *kindVisitor) VisitFloat64SymbolNode(node *ast.Float64SymbolNode) {
	v.seen["VisitFloat64SymbolNode"]++
}

func (v *kindVisitor) VisitInt64SymbolNode(node *ast.Int64SymbolNode) {
	v.seen["VisitInt64SymbolNode"]++
}

func (v *kindVisitor) VisitStringSymbolNode(node *ast.StringSymbolNode) {
	v.seen["VisitStringSymbolNode"]++
}

func (v *kindVisitor) VisitAnyTypeSymbolNode(node *ast.AnyTypeSymbolNode) {
	v.seen["VisitAnyTypeSymbolNode"]++
}

func (v *kindVisitor) VisitInt64ToFloat64NodeStart(node *ast.Int64ToFloat64Node) {
	v.seen["VisitInt64ToFloat64NodeStart"]++
}

func (v *kindVisitor) VisitInt64ToFloat64NodeEnd(node *ast.Int64ToFloat64Node) {
	v.seen["VisitInt64ToFloat64NodeEnd"]++
}

func (v *kindVisitor) VisitStringFuncNodeStart(node *ast.StringFuncNode) {
	v.seen["VisitStringFuncNodeStart"]++
}

func (v *kindVisitor) VisitStringFuncNodeEnd(node *ast.StringFuncNode) {
	v.seen["VisitStringFuncNodeEnd"]++
}

func (v *kindVisitor) VisitAllOfSetExprNodeStart(node *ast.AllOfSetExprNode) {
	v.seen["VisitAllOfSetExprNodeStart"]++
}

func (v *kindVisitor) VisitAllOfSetExprNodeEnd(node *ast.AllOfSetExprNode) {
	v.seen["VisitAllOfSetExprNodeEnd"]++
}

func (v *kindVisitor) VisitAnyOfSetExprNodeStart(node *ast.AnyOfSetExprNode) {
	v.seen["VisitAnyOfSetExprNodeStart"]++
}

func (v *kindVisitor) VisitAnyOfSetExprNodeEnd(node *ast.AnyOfSetExprNode) {
	v.seen["VisitAnyOfSetExprNodeEnd"]++
}

func (v *kindVisitor) VisitCountSetExprNodeStart(node *ast.CountSetExprNode) {
	v.seen["VisitCountSetExprNodeStart"]++
}

func (v *kindVisitor) VisitCountSetExprNodeEnd(node *ast.CountSetExprNode) {
	v.seen["VisitCountSetExprNodeEnd"]++
}

func (v *kindVisitor) VisitIsEmptySetExprNodeStart(node *ast.IsEmptySetExprNode) {
	v.seen["VisitIsEmptySetExprNodeStart"]++
}

func (v *kindVisitor) VisitIsEmptySetExprNodeEnd(node *ast.IsEmptySetExprNode) {
	v.seen["VisitIsEmptySetExprNodeEnd"]++
}

func (v *kindVisitor) VisitSortByNode(node *ast.SortByNode) {
	v.seen["VisitSortByNode"]++
}

func (v *kindVisitor) VisitSortFieldNode(node *ast.SortFieldNode) {
	v.seen["VisitSortFieldNode"]++
}

func (v *kindVisitor) VisitLimitExprNode(node *ast.LimitExprNode) {
	v.seen["VisitLimitExprNode"]++
}

func (v *kindVisitor) VisitSkipExprNode(node *ast.SkipExprNode) {
	v.seen["VisitSkipExprNode"]++
}

func (v *kindVisitor) VisitUntypedSubQueryNodeStart(node *ast.UntypedSubQueryNode) {
	v.seen["VisitUntypedSubQueryNodeStart"]++
}

func (v *kindVisitor) VisitUntypedSubQueryNodeEnd(node *ast.UntypedSubQueryNode) {
	v.seen["VisitUntypedSubQueryNodeEnd"]++
}

func (v *kindVisitor) VisitSymbol(symbol string, nodeType ast.NodeType) {
	v.seen["VisitSymbol"]++
	v.symbols = append(v.symbols, symbol)
}
