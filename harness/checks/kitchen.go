package checks

import (
	"fmt"
	"sort"
	"strings"
	"sync"

	"github.com/openziti/foundation/v2/errorz"
	"github.com/openziti/storage/ast"
	"github.com/openziti/storage/boltz"
	"go.etcd.io/bbolt"
	"verif/dump"
	"verif/explore"
	"verif/world"
)

// ---------------------------------------------------------------------------------------------
// "Kitchen sink" scenario (S_all / S_pc): one parent store with unique + set + fk index,
// plain and extended child store, link collection, ref-counted link collection, and a
// cascade-delete referrer store. Used by C06, C07, C08, C09, C15.

// kOrgKey: the key under which the fk symbol `org` of people is stored (deliberately not the symbol name)
const kOrgKey = "orgRef"

type kFeat struct {
	orgs, places, rc, pets bool
	maxCount               int
	// childIdx: the child stores own constraints of their own - a unique index on the plain child's field
	// `title` (value "T-<id>") and a set index on the extended child's field `badges` (value ["g"])
	childIdx bool
	// childLinks (needs places): a link collection owned by the plain child store (mgr.mplaces <-> places.mgrs)
	childLinks bool
	// extFirst: register the extended child store before the plain one
	extFirst bool
}

type kPerson struct {
	name  string
	roles []string
	org   *string
	mgr   bool  // has plain-child data
	lead  *bool // child field of mgr
	prof  bool  // has extended-child data
	nick  *string
}

type kModel struct {
	sc     *kitchen
	orgs   map[string]bool
	places map[string]bool
	people map[string]*kPerson
	pets   map[string]string  // pet -> owner
	links  map[[2]string]bool // (person, place)
	mlinks map[[2]string]bool // (manager, place): link collection owned by the plain child store
	rc     map[[2]string]int  // (person, place) -> count
}

func (m *kModel) Clone() explore.Model {
	n := &kModel{sc: m.sc, orgs: map[string]bool{}, places: map[string]bool{}, people: map[string]*kPerson{}, pets: map[string]string{}, links: map[[2]string]bool{}, mlinks: map[[2]string]bool{}, rc: map[[2]string]int{}}
	for k, v := range m.mlinks {
		n.mlinks[k] = v
	}
	for k := range m.orgs {
		n.orgs[k] = true
	}
	for k := range m.places {
		n.places[k] = true
	}
	for k, v := range m.people {
		c := *v
		c.roles = append([]string{}, v.roles...)
		n.people[k] = &c
	}
	for k, v := range m.pets {
		n.pets[k] = v
	}
	for k := range m.links {
		n.links[k] = true
	}
	for k, v := range m.rc {
		n.rc[k] = v
	}
	return n
}

func (m *kModel) Render() *dump.Tree {
	t := dump.NewTree()
	for o := range m.orgs {
		t.Ensure("root", "orgs", o).Values["label"] = world.EncString("L")
	}
	for l := range m.places {
		t.Ensure("root", "places", l).Values["label"] = world.EncString("L")
	}
	for id, p := range m.people {
		b := t.Ensure("root", "people", id)
		b.Values["name"] = world.EncString(p.name)
		if p.org == nil {
			b.Values[kOrgKey] = world.EncNil()
		} else {
			b.Values[kOrgKey] = world.EncString(*p.org)
			t.Ensure("root", "orgs", *p.org, "members").Values[world.TypedKey(id)] = []byte{}
		}
		for _, r := range p.roles {
			t.Ensure("root", "people", id, "roles").Values[world.TypedKey(r)] = []byte{}
			t.Ensure("root", "indexes", "people", "roles", r).Values[world.TypedKey(id)] = []byte{}
		}
		t.Ensure("root", "indexes", "people", "name").Values[p.name] = []byte(id)
		if p.mgr {
			mb := t.Ensure("root", "people", id, "mgr")
			if p.lead == nil {
				mb.Values["lead"] = world.EncNil()
			} else {
				mb.Values["lead"] = world.EncBool(*p.lead)
			}
			if m.sc.feat.childIdx {
				mb.Values["title"] = world.EncString("T-" + id)
				t.Ensure(m.sc.childIdxPath("title")...).Values["T-"+id] = []byte(id)
			}
		}
		if p.prof {
			pb := t.Ensure("root", "people", id, "prof")
			if p.nick == nil {
				pb.Values["nick"] = world.EncNil()
			} else {
				pb.Values["nick"] = world.EncString(*p.nick)
			}
			if m.sc.feat.childIdx {
				t.Ensure("root", "people", id, "prof", "badges").Values[world.TypedKey("g")] = []byte{}
				t.Ensure(append(m.sc.childIdxPath("badges"), "g")...).Values[world.TypedKey(id)] = []byte{}
			}
		}
	}
	for pet, owner := range m.pets {
		b := t.Ensure("root", "pets", pet)
		b.Values["label"] = world.EncString("L")
		b.Values["owner"] = world.EncString(owner)
		t.Ensure("root", "people", owner, "pets").Values[world.TypedKey(pet)] = []byte{}
	}
	for k := range m.links {
		t.Ensure("root", "people", k[0], "places").Values[world.TypedKey(k[1])] = []byte{}
		t.Ensure("root", "places", k[1], "people").Values[world.TypedKey(k[0])] = []byte{}
	}
	for k := range m.mlinks {
		t.Ensure("root", "people", k[0], "mgr", "mplaces").Values[world.TypedKey(k[1])] = []byte{}
		t.Ensure("root", "places", k[1], "mgrs").Values[world.TypedKey(k[0])] = []byte{}
	}
	for k, c := range m.rc {
		t.Ensure("root", "people", k[0], "rplaces").Values[world.TypedKey(k[1])] = world.EncInt32(int32(c))
		t.Ensure("root", "places", k[1], "rpeople").Values[world.TypedKey(k[0])] = world.EncInt32(int32(c))
	}
	return t
}

type kitchen struct {
	label                       string
	feat                        kFeat
	orgs, people, places, pets  *world.Store
	mgr, prof                   *world.Store
	nameIdx                     boltz.ReadIndex
	rolesIdx                    boltz.SetReadIndex
	lp, ll                      boltz.LinkCollection
	rp, rl                      boltz.RefCountedLinkCollection
	mlp, mll                    boltz.LinkCollection // owned by the plain child store
	personIds, orgIds, placeIds []string
	petIds                      []string
	ops                         []explore.Op
	// opKind/opId describe each operation for the property-specific oracles
	opInfo []kOpInfo
	// parsed paged queries, one set per concurrent caller (a parsed query is not safe for concurrent use)
	pagedPool sync.Pool
	noReads   bool
	// childIdxDir: bucket path (below root/indexes) of the child stores' own indexes
	childIdxDir map[string][]string
}

// kPaged: paged / sorted queries evaluated through parent and child stores (id order, so the expected
// page is computed from the sorted id list).
var kPagedTexts = []struct {
	text        string
	desc        bool
	skip, limit int // limit < 0: none
	cursorRoute bool
}{
	{"true skip 1", false, 1, -1, true},
	{"true limit 1", false, 0, 1, true},
	{"true skip 1 limit 1", false, 1, 1, true},
	{"true skip 2", false, 2, -1, true},
	{"true sort by id desc skip 1", true, 1, -1, false},
	{"true sort by id desc limit 1", true, 0, 1, false},
}

type kPagedSet struct {
	q [3][]ast.Query // per store (people, mgr, prof) x query text
}

func (k *kitchen) pagedQueries() *kPagedSet {
	if v := k.pagedPool.Get(); v != nil {
		return v.(*kPagedSet)
	}
	ps := &kPagedSet{}
	for si, st := range []*world.Store{k.people, k.mgr, k.prof} {
		for _, pt := range kPagedTexts {
			q, err := ast.Parse(st, pt.text)
			if err != nil {
				panic(fmt.Sprintf("kitchen: cannot parse %q: %v", pt.text, err))
			}
			ps.q[si] = append(ps.q[si], q)
		}
	}
	return ps
}

func kPage(want []string, desc bool, skip, limit int) []string {
	l := append([]string{}, want...)
	if desc {
		for i, j := 0, len(l)-1; i < j; i, j = i+1, j-1 {
			l[i], l[j] = l[j], l[i]
		}
	}
	if skip >= len(l) {
		return nil
	}
	l = l[skip:]
	if limit >= 0 && len(l) > limit {
		l = l[:limit]
	}
	return l
}

type kOpInfo struct {
	kind string // create, update, patch, delete, link, other
	id   string // entity id the op is about (deletes: the deleted id)
	via  string // store through which the op is issued
}

func newKitchen(label string, feat kFeat) *kitchen {
	k := &kitchen{label: label, feat: feat}
	k.personIds = []string{"#p1", "#p2"}
	k.orgIds = []string{"#o1"}
	k.placeIds = []string{"#l1"}
	k.petIds = []string{"#t1"}
	lbl := []world.Field{{Name: "label", Kind: world.KString}}
	k.orgs = world.NewStore(&world.Spec{EntityType: "orgs", BasePath: []string{"root"}, Fields: lbl})
	k.places = world.NewStore(&world.Spec{EntityType: "places", BasePath: []string{"root"}, Fields: lbl})
	k.people = world.NewStore(&world.Spec{EntityType: "people", BasePath: []string{"root"}, Fields: []world.Field{
		{Name: "name", Kind: world.KString}, {Name: "roles", Kind: world.KStringList}, {Name: kOrgKey, Kind: world.KStringP}}})
	k.pets = world.NewStore(&world.Spec{EntityType: "pets", BasePath: []string{"root"}, Fields: []world.Field{
		{Name: "label", Kind: world.KString}, {Name: "owner", Kind: world.KStringP}}})
	k.orgs.AddScalarSymbols()
	k.places.AddScalarSymbols()

	k.people.AddIdSymbol("id", ast.NodeTypeString)
	nameSym := k.people.AddSymbol("name", ast.NodeTypeString)
	k.nameIdx = k.people.AddUniqueIndex(nameSym)
	rolesSym := k.people.AddSetSymbol("roles", ast.NodeTypeString)
	k.rolesIdx = k.people.AddSetIndex(rolesSym)
	orgSym := k.people.AddFkSymbolWithKey("org", kOrgKey, k.orgs) // the symbol name differs from the stored key
	membersSym := k.orgs.AddFkSetSymbol("members", k.people)
	k.people.AddNullableFkIndex(orgSym, membersSym)

	symPL := k.people.AddFkSetSymbol("places", k.places)
	symLP := k.places.AddFkSetSymbol("people", k.people)
	k.lp = k.people.AddLinkCollection(symPL, symLP)
	k.ll = k.places.AddLinkCollection(symLP, symPL)
	symRPL := k.people.AddFkSetSymbol("rplaces", k.places)
	symRLP := k.places.AddFkSetSymbol("rpeople", k.people)
	k.rp = k.people.AddRefCountedLinkCollection(symRPL, symRLP)
	k.rl = k.places.AddRefCountedLinkCollection(symRLP, symRPL)

	k.pets.AddIdSymbol("id", ast.NodeTypeString)
	k.pets.AddSymbol("label", ast.NodeTypeString)
	ownerSym := k.pets.AddFkSymbol("owner", k.people)
	petsSym := k.people.AddFkSetSymbol("pets", k.pets)
	k.pets.AddFkIndexCascadeDelete(ownerSym, petsSym)

	mkMgr := func() {
		k.mgr = world.NewStore(&world.Spec{Parent: k.people, ChildPath: []string{"mgr"}, Fields: []world.Field{
			{Name: "name", Kind: world.KString}, {Name: "roles", Kind: world.KStringList}, {Name: kOrgKey, Kind: world.KStringP},
			{Name: "lead", Kind: world.KBoolP, Child: true}}})
		if feat.childIdx {
			k.mgr.Spec.Fields = append(k.mgr.Spec.Fields, world.Field{Name: "title", Kind: world.KString, Child: true})
		}
		k.people.GrantSymbols(k.mgr)
		k.mgr.AddSymbol("lead", ast.NodeTypeBool)
		if feat.childIdx {
			k.mgr.AddUniqueIndex(k.mgr.AddSymbol("title", ast.NodeTypeString))
		}
	}
	mkProf := func() {
		k.prof = world.NewStore(&world.Spec{Parent: k.people, ChildPath: []string{"prof"}, Extended: true, Fields: []world.Field{
			{Name: "name", Kind: world.KString}, {Name: "roles", Kind: world.KStringList}, {Name: kOrgKey, Kind: world.KStringP},
			{Name: "nick", Kind: world.KStringP, Child: true}}})
		if feat.childIdx {
			k.prof.Spec.Fields = append(k.prof.Spec.Fields, world.Field{Name: "badges", Kind: world.KStringList, Child: true})
		}
		k.people.GrantSymbols(k.prof)
		k.prof.AddSymbol("nick", ast.NodeTypeString)
		if feat.childIdx {
			k.prof.AddSetIndex(k.prof.AddSetSymbol("badges", ast.NodeTypeString))
		}
	}
	// registration order of the child stores matters to the parent's fan-out (an extended store reports every
	// parent entity as its own)
	if feat.extFirst {
		mkProf()
		mkMgr()
	} else {
		mkMgr()
		mkProf()
	}
	if feat.childLinks {
		symMP := k.mgr.AddFkSetSymbol("mplaces", k.places)
		symPM := k.places.AddFkSetSymbol("mgrs", k.mgr)
		k.mlp = k.mgr.AddLinkCollection(symMP, symPM)
		k.mll = k.places.AddLinkCollection(symPM, symMP)
	}
	k.childIdxDir = map[string][]string{"title": {k.mgr.GetEntityType(), "title"}, "badges": {k.prof.GetEntityType(), "badges"}}
	k.buildOps()
	return k
}

func (k *kitchen) Name() string { return "S_all[" + k.label + "]" }
func (k *kitchen) InitDb(db *boltz.DbImpl) error {
	return db.Update(nil, func(ctx boltz.MutateContext) error {
		h := &errorz.ErrorHolderImpl{}
		for _, s := range []*world.Store{k.orgs, k.places, k.people, k.pets, k.mgr, k.prof} {
			s.InitializeIndexes(ctx.Tx(), h)
		}
		return h.GetError()
	})
}
func (k *kitchen) NewModel() explore.Model {
	return &kModel{sc: k, orgs: map[string]bool{}, places: map[string]bool{}, people: map[string]*kPerson{}, pets: map[string]string{}, links: map[[2]string]bool{}, mlinks: map[[2]string]bool{}, rc: map[[2]string]int{}}
}
func (k *kitchen) Ops() []explore.Op                   { return k.ops }
func (k *kitchen) Context(_ []int) boltz.MutateContext { return explore.OrdinaryContext() }
func (k *kitchen) Classify(err error) string {
	if err == errSkip || (err != nil && strings.HasPrefix(err.Error(), "verif-skip")) {
		return "skip"
	}
	return classifyCommon(err)
}
func (k *kitchen) Normalize(t *dump.Tree) *dump.Tree {
	return t.PruneEmpty(func(path []string) bool {
		return len(path) == 5 && path[1] == "indexes" && path[3] == "roles"
	})
}

func (k *kitchen) storeFor(via string) *world.Store {
	switch via {
	case "mgr":
		return k.mgr
	case "prof":
		return k.prof
	}
	return k.people
}

func (k *kitchen) personRec(id, name string, roles []string, org *string, lead *bool, nick *string) *world.Rec {
	r := world.NewRec("people", id).With("name", name).With("roles", append([]string{}, roles...))
	if org == nil {
		r.With(kOrgKey, nil)
	} else {
		r.With(kOrgKey, *org)
	}
	if lead == nil {
		r.With("lead", nil)
	} else {
		r.With("lead", *lead)
	}
	if nick == nil {
		r.With("nick", nil)
	} else {
		r.With("nick", *nick)
	}
	if k.feat.childIdx {
		r.With("title", "T-"+id).With("badges", []string{"g"})
	}
	return r
}

// childIdxPath: where a child store keeps the index of one of its own fields (learned from the store itself).
func (k *kitchen) childIdxPath(field string) []string {
	return append([]string{"root", "indexes"}, k.childIdxDir[field]...)
}

func (m *kModel) nameTaken(id, name string) bool {
	for oid, o := range m.people {
		if oid != id && o.name == name {
			return true
		}
	}
	return false
}

func (m *kModel) deletePerson(id string) {
	delete(m.people, id)
	for pet, owner := range m.pets {
		if owner == id {
			delete(m.pets, pet)
		}
	}
	for key := range m.links {
		if key[0] == id {
			delete(m.links, key)
		}
	}
	for key := range m.rc {
		if key[0] == id {
			delete(m.rc, key)
		}
	}
	for key := range m.mlinks {
		if key[0] == id {
			delete(m.mlinks, key)
		}
	}
}

func (k *kitchen) add(info kOpInfo, op explore.Op) {
	k.ops = append(k.ops, op)
	k.opInfo = append(k.opInfo, info)
}

func orgS(o *string) string {
	if o == nil {
		return "null"
	}
	return *o
}

func (k *kitchen) buildOps() {
	tr, fa := true, false
	_ = fa
	nickN := "nn"
	if k.feat.orgs {
		for _, o := range k.orgIds {
			o := o
			k.add(kOpInfo{"create", o, "orgs"}, explore.Op{
				Name: "createOrg(" + o + ")",
				Do: func(ctx boltz.MutateContext) error {
					return k.orgs.Create(ctx, world.NewRec("orgs", o).With("label", "L"))
				},
				Apply: func(mm explore.Model) []string {
					m := mm.(*kModel)
					if m.orgs[o] {
						return []string{"exists"}
					}
					m.orgs[o] = true
					return []string{"ok"}
				}})
			k.add(kOpInfo{"delete", o, "orgs"}, explore.Op{
				Name: "deleteOrg(" + o + ")",
				Do:   func(ctx boltz.MutateContext) error { return k.orgs.DeleteById(ctx, o) },
				Apply: func(mm explore.Model) []string {
					m := mm.(*kModel)
					if !m.orgs[o] {
						return []string{"notfound"}
					}
					for _, p := range m.people {
						if p.org != nil && *p.org == o {
							return []string{"refexists"}
						}
					}
					delete(m.orgs, o)
					return []string{"ok"}
				}})
		}
	}
	if k.feat.places {
		for _, l := range k.placeIds {
			l := l
			k.add(kOpInfo{"create", l, "places"}, explore.Op{
				Name: "createPlace(" + l + ")",
				Do: func(ctx boltz.MutateContext) error {
					return k.places.Create(ctx, world.NewRec("places", l).With("label", "L"))
				},
				Apply: func(mm explore.Model) []string {
					m := mm.(*kModel)
					if m.places[l] {
						return []string{"exists"}
					}
					m.places[l] = true
					return []string{"ok"}
				}})
			k.add(kOpInfo{"delete", l, "places"}, explore.Op{
				Name: "deletePlace(" + l + ")",
				Do:   func(ctx boltz.MutateContext) error { return k.places.DeleteById(ctx, l) },
				Apply: func(mm explore.Model) []string {
					m := mm.(*kModel)
					if !m.places[l] {
						return []string{"notfound"}
					}
					delete(m.places, l)
					for key := range m.links {
						if key[1] == l {
							delete(m.links, key)
						}
					}
					for key := range m.rc {
						if key[1] == l {
							delete(m.rc, key)
						}
					}
					for key := range m.mlinks {
						if key[1] == l {
							delete(m.mlinks, key)
						}
					}
					return []string{"ok"}
				}})
		}
	}
	var orgChoices []*string
	orgChoices = append(orgChoices, nil)
	if k.feat.orgs {
		for _, o := range k.orgIds {
			o := o
			orgChoices = append(orgChoices, &o)
		}
	}
	for _, id := range k.personIds {
		id := id
		for _, via := range []string{"people", "mgr", "prof"} {
			via := via
			store := k.storeFor(via)
			for _, name := range []string{"A", "B", ""} {
				for _, roles := range [][]string{nil, {"r"}, {"r", "r"}} {
					for _, org := range orgChoices {
						name, roles, org := name, roles, org
						if len(roles) == 2 && (name != "A" || org != nil) {
							continue // a list with a duplicate (stored as a set: what is stored differs from what the caller passed)
						}
						if name == "" && (roles != nil || org != nil) {
							continue // the empty value of the non-nullable unique index: once per store and id
						}
						desc := fmt.Sprintf("(%s,name=%s,roles=%v,org=%s)", id, name, roles, orgS(org))
						k.add(kOpInfo{"create", id, via}, explore.Op{
							Name: "create@" + via + desc,
							Do: func(ctx boltz.MutateContext) error {
								if via != "people" && k.people.IsEntityPresent(ctx.Tx(), id) {
									// promoting an existing parent entity through a child-store Create is not specified
									return errSkip
								}
								return store.Create(ctx, k.personRec(id, name, roles, org, &tr, &nickN))
							},
							Apply: func(mm explore.Model) []string {
								m := mm.(*kModel)
								if _, ok := m.people[id]; ok {
									if via != "people" {
										return []string{"skip"}
									}
									return []string{"exists"}
								}
								var errs []string
								if name == "" {
									errs = append(errs, "empty")
								}
								if m.nameTaken(id, name) {
									errs = append(errs, "dup")
								}
								if org != nil && !m.orgs[*org] {
									errs = append(errs, "notfound")
								}
								if errs != nil {
									return errs
								}
								p := &kPerson{name: name, roles: world.Dedup(roles), org: org}
								if via == "mgr" {
									p.mgr, p.lead = true, &tr
								}
								if via == "prof" {
									p.prof, p.nick = true, &nickN
								}
								m.people[id] = p
								return []string{"ok"}
							}})
						for _, patch := range []string{"", "name", "child"} {
							patch := patch
							if patch != "" && (roles != nil || org != nil) {
								continue
							}
							if patch == "child" && (via == "people" || name != "A") {
								continue
							}
							var checker boltz.FieldChecker
							label := "update@" + via
							leadV, nickV := &fa, (*string)(nil)
							switch patch {
							case "name":
								checker = boltz.MapFieldChecker{"name": struct{}{}}
								label = "patch[name]@" + via
							case "child":
								checker = boltz.MapFieldChecker{"lead": struct{}{}, "nick": struct{}{}}
								label = "patch[lead,nick]@" + via
							}
							k.add(kOpInfo{map[bool]string{true: "update", false: "patch"}[patch == ""], id, via}, explore.Op{
								Name: label + desc,
								Do: func(ctx boltz.MutateContext) error {
									return store.Update(ctx, k.personRec(id, name, roles, org, leadV, nickV), checker)
								},
								Apply: func(mm explore.Model) []string {
									m := mm.(*kModel)
									cur, ok := m.people[id]
									if !ok {
										return []string{"notfound"}
									}
									if via == "mgr" && !cur.mgr {
										return []string{"notfound"}
									}
									if via == "prof" && !cur.prof {
										return []string{"notfound"}
									}
									nn, nr, no := cur.name, cur.roles, cur.org
									if patch == "" || patch == "name" {
										nn = name
									}
									if patch == "" {
										nr, no = world.Dedup(roles), org
									}
									var errs []string
									if nn != cur.name && nn == "" {
										errs = append(errs, "empty")
									}
									if nn != cur.name && m.nameTaken(id, nn) {
										errs = append(errs, "dup")
									}
									if orgS(no) != orgS(cur.org) && no != nil && !m.orgs[*no] {
										errs = append(errs, "notfound")
									}
									if errs != nil {
										return errs
									}
									np := *cur
									np.name, np.roles, np.org = nn, nr, no
									// child fields change only when the update is routed to the store owning them
									// (a parent-store update of an entity with child data is routed to that child store)
									// (a parent-store update of an entity with child data is routed to that child store,
									// which re-persists the stored child values)
									if patch == "" || patch == "child" {
										if cur.mgr && via == "mgr" {
											np.lead = leadV
										}
										if cur.prof && via == "prof" {
											np.nick = nickV
										}
									}
									m.people[id] = &np
									return []string{"ok"}
								}})
						}
					}
				}
			}
			k.add(kOpInfo{"delete", id, via}, explore.Op{
				Name: "delete@" + via + "(" + id + ")",
				Do: func(ctx boltz.MutateContext) error {
					if via == "mgr" && k.people.IsEntityPresent(ctx.Tx(), id) && !k.mgr.IsEntityPresent(ctx.Tx(), id) {
						// deleting a plain parent entity through a plain child store is not specified
						return errSkip
					}
					return store.DeleteById(ctx, id)
				},
				Apply: func(mm explore.Model) []string {
					m := mm.(*kModel)
					cur, ok := m.people[id]
					if !ok {
						return []string{"notfound"}
					}
					if via == "mgr" && !cur.mgr {
						return []string{"skip"}
					}
					m.deletePerson(id)
					return []string{"ok"}
				}})
		}
		// a delete whose not-found answer the caller ignores (the transaction goes on after a FAILED store call)
		k.add(kOpInfo{"deleteIfPresent", id, "people"}, explore.Op{
			Name: "deleteIgnoringNotFound@people(" + id + ")",
			Do: func(ctx boltz.MutateContext) error {
				if err := k.people.DeleteById(ctx, id); err != nil && !boltz.IsErrNotFoundErr(err) {
					return err
				}
				return nil
			},
			Apply: func(mm explore.Model) []string {
				m := mm.(*kModel)
				if _, ok := m.people[id]; ok {
					m.deletePerson(id)
				}
				return []string{"ok"}
			}})
		if k.feat.pets {
			for _, pet := range k.petIds {
				pet := pet
				k.add(kOpInfo{"create", pet, "pets"}, explore.Op{
					Name: fmt.Sprintf("createPet(%s,owner=%s)", pet, id),
					Do: func(ctx boltz.MutateContext) error {
						return k.pets.Create(ctx, world.NewRec("pets", pet).With("label", "L").With("owner", id))
					},
					Apply: func(mm explore.Model) []string {
						m := mm.(*kModel)
						if _, ok := m.pets[pet]; ok {
							return []string{"exists"}
						}
						if _, ok := m.people[id]; !ok {
							return []string{"notfound"}
						}
						m.pets[pet] = id
						return []string{"ok"}
					}})
			}
		}
		if k.feat.places {
			for _, l := range k.placeIds {
				l := l
				k.add(kOpInfo{"link", id, "people"}, explore.Op{
					Name: fmt.Sprintf("people.AddLinks(%s,%s)", id, l),
					Do:   func(ctx boltz.MutateContext) error { return k.lp.AddLinks(ctx.Tx(), id, l) },
					Apply: func(mm explore.Model) []string {
						m := mm.(*kModel)
						if _, ok := m.people[id]; !ok || !m.places[l] {
							return []string{"notfound"}
						}
						m.links[[2]string{id, l}] = true
						return []string{"ok"}
					}})
				k.add(kOpInfo{"link", id, "places"}, explore.Op{
					Name: fmt.Sprintf("places.RemoveLinks(%s,%s)", l, id),
					Do:   func(ctx boltz.MutateContext) error { return k.ll.RemoveLinks(ctx.Tx(), l, id) },
					Apply: func(mm explore.Model) []string {
						m := mm.(*kModel)
						if !m.places[l] {
							return []string{"notfound"}
						}
						delete(m.links, [2]string{id, l})
						return []string{"ok"}
					}})
				if k.feat.childLinks {
					k.add(kOpInfo{"link", id, "mgr"}, explore.Op{
						Name: fmt.Sprintf("mgr.AddLinks(%s,%s)", id, l),
						Do:   func(ctx boltz.MutateContext) error { return k.mlp.AddLinks(ctx.Tx(), id, l) },
						Apply: func(mm explore.Model) []string {
							m := mm.(*kModel)
							if p, ok := m.people[id]; !ok || !p.mgr || !m.places[l] {
								return []string{"notfound"}
							}
							m.mlinks[[2]string{id, l}] = true
							return []string{"ok"}
						}})
					k.add(kOpInfo{"link", id, "places"}, explore.Op{
						Name: fmt.Sprintf("places.RemoveMgrLinks(%s,%s)", l, id),
						Do:   func(ctx boltz.MutateContext) error { return k.mll.RemoveLinks(ctx.Tx(), l, id) },
						Apply: func(mm explore.Model) []string {
							m := mm.(*kModel)
							if !m.places[l] {
								return []string{"notfound"}
							}
							delete(m.mlinks, [2]string{id, l})
							return []string{"ok"}
						}})
				}
				if k.feat.rc {
					k.add(kOpInfo{"link", id, "people"}, explore.Op{
						Name: fmt.Sprintf("people.rc.Increment(%s,%s)", id, l),
						Do: func(ctx boltz.MutateContext) error {
							if c, _ := k.rp.GetLinkCounts(ctx.Tx(), []byte(id), []byte(l)); c != nil && int(*c) >= k.feat.maxCount {
								return errSkip
							}
							_, err := k.rp.IncrementLinkCount(ctx.Tx(), []byte(id), []byte(l))
							return err
						},
						Apply: func(mm explore.Model) []string {
							m := mm.(*kModel)
							if _, ok := m.people[id]; !ok {
								return []string{"notfound"}
							}
							if m.rc[[2]string{id, l}] >= k.feat.maxCount {
								return []string{"skip"}
							}
							if !m.places[l] {
								return []string{"notfound"}
							}
							m.rc[[2]string{id, l}]++
							return []string{"ok"}
						}})
					k.add(kOpInfo{"link", id, "places"}, explore.Op{
						Name: fmt.Sprintf("places.rc.Decrement(%s,%s)", l, id),
						Do: func(ctx boltz.MutateContext) error {
							_, err := k.rl.DecrementLinkCount(ctx.Tx(), []byte(l), []byte(id))
							return err
						},
						Apply: func(mm explore.Model) []string {
							m := mm.(*kModel)
							if !m.places[l] {
								return []string{"notfound"}
							}
							key := [2]string{id, l}
							if m.rc[key] > 1 {
								m.rc[key]--
							} else {
								delete(m.rc, key)
							}
							return []string{"ok"}
						}})
				}
			}
		}
	}
	if k.feat.pets {
		for _, pet := range k.petIds {
			pet := pet
			k.add(kOpInfo{"delete", pet, "pets"}, explore.Op{
				Name: "deletePet(" + pet + ")",
				Do:   func(ctx boltz.MutateContext) error { return k.pets.DeleteById(ctx, pet) },
				Apply: func(mm explore.Model) []string {
					m := mm.(*kModel)
					if _, ok := m.pets[pet]; !ok {
						return []string{"notfound"}
					}
					delete(m.pets, pet)
					return []string{"ok"}
				}})
		}
	}
}

func sortedJoin(l []string) string {
	c := append([]string{}, l...)
	sort.Strings(c)
	return strings.Join(c, ",")
}

func drain(c ast.SetCursor) []string {
	var out []string
	for ; c.IsValid(); c.Next() {
		out = append(out, string(c.Current()))
	}
	return out
}

// Invariant: reads through parent and child stores (C15) and index reads.
func (k *kitchen) Invariant(tx *bbolt.Tx, mm explore.Model) error {
	if k.noReads {
		return nil // the caller only wants the reachable states; it does its own reads
	}
	m := mm.(*kModel)
	var all, mgrs, profs []string
	for id, p := range m.people {
		all = append(all, id)
		if p.mgr {
			mgrs = append(mgrs, id)
		}
		if p.prof {
			profs = append(profs, id)
		}
	}
	sort.Strings(all)
	sort.Strings(mgrs)
	sort.Strings(profs)
	type q struct {
		store *world.Store
		name  string
		want  []string
	}
	for _, c := range []q{{k.people, "people", all}, {k.mgr, "mgr(plain child)", mgrs}, {k.prof, "prof(extended child)", all}} {
		for _, query := range []string{"true", "true sort by name", "true sort by id desc"} {
			ids, count, err := c.store.QueryIds(tx, query)
			if err != nil {
				return fmt.Errorf("%s.QueryIds(%q): %v", c.name, query, err)
			}
			if sortedJoin(ids) != strings.Join(c.want, ",") || int(count) != len(c.want) {
				return fmt.Errorf("%s.QueryIds(%q) = %v count=%d, model says %v", c.name, query, ids, count, c.want)
			}
		}
		if got := drain(c.store.IterateIds(tx, ast.BoolNodeTrue)); strings.Join(got, ",") != strings.Join(c.want, ",") {
			return fmt.Errorf("%s.IterateIds = %v, model says %v", c.name, got, c.want)
		}
	}
	// paging through every store: the page is a window of that store's own entities (a parent-only row
	// must neither appear in nor consume skip/limit of a plain child store's page)
	ps := k.pagedQueries()
	defer k.pagedPool.Put(ps)
	for si, c := range []q{{k.people, "people", all}, {k.mgr, "mgr(plain child)", mgrs}, {k.prof, "prof(extended child)", all}} {
		for qi, pt := range kPagedTexts {
			want := strings.Join(kPage(c.want, pt.desc, pt.skip, pt.limit), ",")
			ids, count, err := c.store.QueryIdsC(tx, ps.q[si][qi])
			if err != nil {
				return fmt.Errorf("%s.QueryIdsC(%q): %v", c.name, pt.text, err)
			}
			if strings.Join(ids, ",") != want || int(count) != len(c.want) {
				return fmt.Errorf("%s.QueryIdsC(%q) = %v count=%d, model says [%s] count=%d", c.name, pt.text, ids, count, want, len(c.want))
			}
			if pt.cursorRoute {
				if got := strings.Join(drain(c.store.IterateIds(tx, ps.q[si][qi])), ","); got != want {
					return fmt.Errorf("%s.IterateIds(%q) = [%s], model says [%s]", c.name, pt.text, got, want)
				}
			}
		}
	}
	// IterateValidIds: entities with child data, for both kinds of child store
	if got := drain(k.mgr.IterateValidIds(tx, ast.BoolNodeTrue)); strings.Join(got, ",") != strings.Join(mgrs, ",") {
		return fmt.Errorf("mgr.IterateValidIds = %v, model says %v", got, mgrs)
	}
	if got := drain(k.prof.IterateValidIds(tx, ast.BoolNodeTrue)); strings.Join(got, ",") != strings.Join(profs, ",") {
		return fmt.Errorf("prof.IterateValidIds = %v, model says %v (entities with extended data)", got, profs)
	}
	// ... and repositioned: after Seek(v) the cursor stands on the first id >= v that has child data
	for _, c := range []struct {
		store *world.Store
		name  string
		want  []string
	}{{k.mgr, "mgr", mgrs}, {k.prof, "prof", profs}} {
		for _, target := range append([]string{""}, k.personIds...) {
			cur, ok := c.store.IterateValidIds(tx, ast.BoolNodeTrue).(ast.SeekableSetCursor)
			if !ok {
				return fmt.Errorf("%s.IterateValidIds is not seekable", c.name)
			}
			cur.Seek([]byte(target))
			var rest []string
			for _, id := range c.want {
				if id >= target {
					rest = append(rest, id)
				}
			}
			if got := drain(cur); strings.Join(got, ",") != strings.Join(rest, ",") {
				return fmt.Errorf("%s.IterateValidIds after Seek(%q) = %v, model says %v", c.name, target, got, rest)
			}
		}
	}
	for _, id := range k.personIds {
		p := m.people[id]
		e, found, err := k.people.FindById(tx, id)
		if err != nil {
			return err
		}
		if found != (p != nil) {
			return fmt.Errorf("people.FindById(%s) found=%v, model says %v", id, found, p != nil)
		}
		if p != nil {
			if err := k.cmpPerson("people", e, p, false, false); err != nil {
				return err
			}
		}
		me, mfound, err := k.mgr.FindById(tx, id)
		if err != nil {
			return err
		}
		if mfound != (p != nil && p.mgr) {
			return fmt.Errorf("mgr.FindById(%s) found=%v, model says %v", id, mfound, p != nil && p.mgr)
		}
		if mfound {
			if err := k.cmpPerson("mgr", me, p, true, false); err != nil {
				return err
			}
		}
		_, lerr := k.mgr.LoadById(tx, id)
		if (lerr == nil) != (p != nil && p.mgr) {
			return fmt.Errorf("mgr.LoadById(%s) err=%v, model says present=%v", id, lerr, p != nil && p.mgr)
		}
		pe, pfound, err := k.prof.FindById(tx, id)
		if err != nil {
			return err
		}
		if pfound != (p != nil) {
			return fmt.Errorf("prof.FindById(%s) found=%v, model says %v (extended store sees every parent)", id, pfound, p != nil)
		}
		if pfound {
			if err := k.cmpPerson("prof", pe, p, false, true); err != nil {
				return err
			}
		}
		if got := k.people.IsEntityPresent(tx, id); got != (p != nil) {
			return fmt.Errorf("people.IsEntityPresent(%s)=%v", id, got)
		}
		if got := k.mgr.IsEntityPresent(tx, id); got != (p != nil && p.mgr) {
			return fmt.Errorf("mgr.IsEntityPresent(%s)=%v", id, got)
		}
	}
	// parent indexes reflect the last write whichever store it went through
	for _, name := range []string{"A", "B"} {
		want := ""
		for id, p := range m.people {
			if p.name == name {
				want = id
			}
		}
		if got := string(k.nameIdx.Read(tx, []byte(name))); got != want {
			return fmt.Errorf("name index Read(%s) = %q, model says %q", name, got, want)
		}
	}
	var wantR []string
	for id, p := range m.people {
		for _, r := range p.roles {
			if r == "r" {
				wantR = append(wantR, id)
			}
		}
	}
	sort.Strings(wantR)
	var gotR []string
	k.rolesIdx.Read(tx, []byte("r"), func(v []byte) { gotR = append(gotR, string(v)) })
	if strings.Join(gotR, ",") != strings.Join(wantR, ",") {
		return fmt.Errorf("roles index Read(r) = %v, model says %v", gotR, wantR)
	}
	// queries over parent symbols through the child stores
	for _, c := range []struct {
		store *world.Store
		name  string
		in    func(p *kPerson) bool
	}{{k.people, "people", func(p *kPerson) bool { return true }}, {k.mgr, "mgr", func(p *kPerson) bool { return p.mgr }}, {k.prof, "prof", func(p *kPerson) bool { return true }}} {
		var want []string
		for id, p := range m.people {
			if c.in(p) && p.name == "A" {
				want = append(want, id)
			}
		}
		sort.Strings(want)
		ids, _, err := c.store.QueryIds(tx, `name = "A"`)
		if err != nil {
			return err
		}
		if strings.Join(ids, ",") != strings.Join(want, ",") {
			return fmt.Errorf("%s.QueryIds(name = \"A\") = %v, model says %v", c.name, ids, want)
		}
	}
	return nil
}

func (k *kitchen) cmpPerson(via string, e *world.Rec, p *kPerson, wantLead, wantNick bool) error {
	org := "null"
	if e.F[kOrgKey] != nil {
		org = e.F[kOrgKey].(string)
	}
	roles, _ := e.F["roles"].([]string)
	if e.F["name"] != p.name || org != orgS(p.org) || strings.Join(roles, ",") != strings.Join(p.roles, ",") {
		return fmt.Errorf("%s.FindById(%s) = name=%v org=%s roles=%v, model says name=%s org=%s roles=%v", via, e.Id, e.F["name"], org, roles, p.name, orgS(p.org), p.roles)
	}
	if wantLead {
		got := "null"
		if e.F["lead"] != nil {
			got = fmt.Sprint(e.F["lead"])
		}
		want := "null"
		if p.lead != nil {
			want = fmt.Sprint(*p.lead)
		}
		if got != want {
			return fmt.Errorf("%s.FindById(%s).lead = %s, model says %s", via, e.Id, got, want)
		}
	}
	if wantNick {
		got := "null"
		if e.F["nick"] != nil {
			got = fmt.Sprint(e.F["nick"])
		}
		want := "null"
		if p.prof && p.nick != nil {
			want = *p.nick
		}
		if got != want {
			return fmt.Errorf("%s.FindById(%s).nick = %s, model says %s", via, e.Id, got, want)
		}
	}
	return nil
}
