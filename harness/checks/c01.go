package checks

import (
	"fmt"
	"runtime"
	"sort"
	"strings"
	"sync"

	"github.com/openziti/storage/ast"
	"github.com/openziti/storage/boltz"
	"go.etcd.io/bbolt"
	rm "verif/refmodel"
	"verif/report"
)

// ---------------------------------------------------------------------------------------------
// C01 — filter evaluation returns exactly the satisfying entities.

type qAtom struct {
	e         rm.Expr
	mandatory bool // the documentation states the typing outright: rejection is a violation
	class     string
}

func lhs(sym string) rm.Lhs      { return rm.Lhs{Sym: sym} }
func anyOf(sym string) rm.Lhs    { return rm.Lhs{Fn: "anyOf", Sym: sym} }
func allOf(sym string) rm.Lhs    { return rm.Lhs{Fn: "allOf", Sym: sym} }
func countOf(sym string) rm.Lhs  { return rm.Lhs{Fn: "count", Sym: sym} }
func countSub(s *rm.SubQ) rm.Lhs { return rm.Lhs{Fn: "count", Sub: s} }
func i64p(v int64) *int64        { return &v }

var cmpOps = []string{"=", "!=", "<", "<=", ">", ">="}

func c01Atoms(thorough bool) []qAtom {
	var out []qAtom
	add := func(class string, mandatory bool, e rm.Expr) {
		out = append(out, qAtom{e: e, mandatory: mandatory, class: class})
	}
	S, I, F, B, T := rm.Str, rm.Int, rm.Flt, rm.Bool, rm.Time
	null := rm.Null

	// ---- scalar symbols
	for _, sym := range []string{"s", "boss.s"} {
		lits := []rm.Val{S("a"), S("B"), S("ab"), S("")}
		if sym != "s" {
			lits = []rm.Val{S("a"), S("")}
		}
		for _, l := range lits {
			for _, op := range cmpOps {
				add("string-cmp", true, rm.Cmp{L: lhs(sym), Op: op, R: l})
			}
			for _, op := range []string{"contains", "not contains", "icontains", "not icontains"} {
				add("string-contains", true, rm.Cmp{L: lhs(sym), Op: op, R: l})
			}
		}
		add("string-contains", true, rm.Cmp{L: lhs(sym), Op: "icontains", R: S("A")})
		add("string-contains", true, rm.Cmp{L: lhs(sym), Op: "not icontains", R: S("b")})
		add("null-test", true, rm.Cmp{L: lhs(sym), Op: "=", R: null})
		add("null-test", true, rm.Cmp{L: lhs(sym), Op: "!=", R: null})
		for _, not := range []bool{false, true} {
			add("string-in", true, rm.In{L: lhs(sym), Not: not, Vals: []rm.Val{S("a")}})
			add("string-in", true, rm.In{L: lhs(sym), Not: not, Vals: []rm.Val{S("B"), S("a")}})
			add("string-in", true, rm.In{L: lhs(sym), Not: not, Vals: []rm.Val{S("")}})
		}
		// number -> string coercion (compared whenever the typer accepts it)
		add("string-vs-number", false, rm.Cmp{L: lhs(sym), Op: "=", R: I(5)})
		add("string-vs-number", false, rm.Cmp{L: lhs(sym), Op: "contains", R: I(5)})
		add("string-vs-number", false, rm.In{L: lhs(sym), Vals: []rm.Val{I(5), I(6)}})
	}
	for _, sym := range []string{"i", "nn", "boss.i"} {
		ilits := []rm.Val{I(4), I(5), I(6)}
		flits := []rm.Val{F(4.5), F(5.0)}
		if sym != "i" {
			ilits, flits = []rm.Val{I(5)}, []rm.Val{F(4.5)}
		}
		for _, op := range cmpOps {
			for _, l := range ilits {
				add("int-cmp", true, rm.Cmp{L: lhs(sym), Op: op, R: l})
			}
			for _, l := range flits {
				add("int-cmp-float", true, rm.Cmp{L: lhs(sym), Op: op, R: l})
			}
		}
		add("null-test", true, rm.Cmp{L: lhs(sym), Op: "=", R: null})
		add("null-test", true, rm.Cmp{L: lhs(sym), Op: "!=", R: null})
		for _, not := range []bool{false, true} {
			add("int-in", true, rm.In{L: lhs(sym), Not: not, Vals: []rm.Val{I(4), I(6)}})
			add("int-in", true, rm.In{L: lhs(sym), Not: not, Vals: []rm.Val{I(5)}})
			add("int-in-float", true, rm.In{L: lhs(sym), Not: not, Vals: []rm.Val{F(4.5), I(5)}})
			add("int-in-float", true, rm.In{L: lhs(sym), Not: not, Vals: []rm.Val{F(5.0)}})
			add("int-between", true, rm.Between{L: lhs(sym), Not: not, Lo: I(4), Hi: I(6)})
			add("int-between", true, rm.Between{L: lhs(sym), Not: not, Lo: I(5), Hi: I(5)})
			add("int-between", true, rm.Between{L: lhs(sym), Not: not, Lo: I(5), Hi: I(6)})
			add("int-between-float", true, rm.Between{L: lhs(sym), Not: not, Lo: F(4.5), Hi: I(6)})
			add("int-between-float", true, rm.Between{L: lhs(sym), Not: not, Lo: I(4), Hi: F(5.5)})
		}
		add("number-contains", true, rm.Cmp{L: lhs(sym), Op: "contains", R: I(5)})
		add("number-contains", true, rm.Cmp{L: lhs(sym), Op: "not contains", R: I(5)})
		add("number-contains", true, rm.Cmp{L: lhs(sym), Op: "contains", R: S("5")})
		add("number-vs-string", false, rm.In{L: lhs(sym), Vals: []rm.Val{S("5")}})
	}
	{
		sym := "f"
		for _, op := range cmpOps {
			for _, l := range []rm.Val{F(4.5), F(5.0)} {
				add("float-cmp", true, rm.Cmp{L: lhs(sym), Op: op, R: l})
			}
			add("float-cmp-int", true, rm.Cmp{L: lhs(sym), Op: op, R: I(5)})
		}
		add("null-test", true, rm.Cmp{L: lhs(sym), Op: "=", R: null})
		add("null-test", true, rm.Cmp{L: lhs(sym), Op: "!=", R: null})
		for _, not := range []bool{false, true} {
			add("float-in", true, rm.In{L: lhs(sym), Not: not, Vals: []rm.Val{F(4.5)}})
			add("float-in", true, rm.In{L: lhs(sym), Not: not, Vals: []rm.Val{I(5)}})
			add("float-in", true, rm.In{L: lhs(sym), Not: not, Vals: []rm.Val{I(4), F(5.0)}})
			add("float-between", true, rm.Between{L: lhs(sym), Not: not, Lo: I(4), Hi: I(5)})
			add("float-between", true, rm.Between{L: lhs(sym), Not: not, Lo: F(4.5), Hi: F(5.5)})
			add("float-between", true, rm.Between{L: lhs(sym), Not: not, Lo: F(4.5), Hi: I(5)})
		}
		add("number-contains", true, rm.Cmp{L: lhs(sym), Op: "contains", R: I(5)})
		add("number-contains", true, rm.Cmp{L: lhs(sym), Op: "contains", R: F(4.5)})
	}
	{
		add("bool", true, rm.BoolSym{Sym: "b"})
		add("bool", true, rm.Not{A: rm.BoolSym{Sym: "b"}})
		for _, op := range []string{"=", "!="} {
			add("bool-cmp", true, rm.Cmp{L: lhs("b"), Op: op, R: B(true)})
			add("bool-cmp", true, rm.Cmp{L: lhs("b"), Op: op, R: B(false)})
			add("null-test", true, rm.Cmp{L: lhs("b"), Op: op, R: null})
		}
		add("bool-const", true, rm.BoolConst{V: true})
		add("bool-const", true, rm.BoolConst{V: false})
	}
	{
		for _, op := range cmpOps {
			for _, l := range []rm.Val{T(qT0), T(qT1), T(qTmid)} {
				add("datetime-cmp", true, rm.Cmp{L: lhs("t"), Op: op, R: l})
			}
		}
		add("null-test", true, rm.Cmp{L: lhs("t"), Op: "=", R: null})
		add("null-test", true, rm.Cmp{L: lhs("t"), Op: "!=", R: null})
		for _, not := range []bool{false, true} {
			add("datetime-in", true, rm.In{L: lhs("t"), Not: not, Vals: []rm.Val{T(qT0)}})
			add("datetime-in", true, rm.In{L: lhs("t"), Not: not, Vals: []rm.Val{T(qT1), T(qTmid)}})
			add("datetime-between", true, rm.Between{L: lhs("t"), Not: not, Lo: T(qT0), Hi: T(qT1)})
			add("datetime-between", true, rm.Between{L: lhs("t"), Not: not, Lo: T(qT0), Hi: T(qTmid)})
			add("datetime-between", true, rm.Between{L: lhs("t"), Not: not, Lo: T(qTmid), Hi: T(qT1)})
		}
	}
	{ // any-typed map element
		sym := "tags.k"
		for _, op := range []string{"=", "!="} {
			for _, l := range []rm.Val{S("a"), S("5"), I(5), F(4.5), F(5.0), B(true), B(false)} {
				add("map-cmp", true, rm.Cmp{L: lhs(sym), Op: op, R: l})
			}
			add("null-test", true, rm.Cmp{L: lhs(sym), Op: op, R: null})
		}
		for _, op := range []string{"<", ">="} {
			add("map-cmp", true, rm.Cmp{L: lhs(sym), Op: op, R: I(6)})
			add("map-cmp", true, rm.Cmp{L: lhs(sym), Op: op, R: S("b")})
		}
		add("map-contains", true, rm.Cmp{L: lhs(sym), Op: "contains", R: S("a")})
		add("map-contains", true, rm.Cmp{L: lhs(sym), Op: "not contains", R: S("a")})
		add("map-in", true, rm.In{L: lhs(sym), Vals: []rm.Val{S("a"), S("b")}})
		add("map-in", true, rm.In{L: lhs(sym), Vals: []rm.Val{I(5)}})
		add("map-in", true, rm.In{L: lhs(sym), Not: true, Vals: []rm.Val{I(5)}})
		add("map-in", true, rm.In{L: lhs(sym), Vals: []rm.Val{F(4.5), I(5)}})
		add("map-between", true, rm.Between{L: lhs(sym), Lo: I(4), Hi: I(6)})
		add("map-between", true, rm.Between{L: lhs(sym), Lo: F(4.5), Hi: F(5.5)})
		add("map-bool", true, rm.BoolSym{Sym: sym})
		// an integer stored 32 bits wide under an any-typed element, met by integer and float operands
		h := "tags.h"
		for _, op := range []string{"=", "!=", "<", "<=", ">", ">="} {
			for _, l := range []rm.Val{I(5), F(5.0), F(4.5), F(-4.0), I(-4)} {
				add("map-int32", true, rm.Cmp{L: lhs(h), Op: op, R: l})
			}
		}
		for _, not := range []bool{false, true} {
			add("map-int32", true, rm.In{L: lhs(h), Not: not, Vals: []rm.Val{F(4.5), F(5.0)}})
			add("map-int32", true, rm.In{L: lhs(h), Not: not, Vals: []rm.Val{I(-4), I(7)}})
			add("map-int32", true, rm.Between{L: lhs(h), Not: not, Lo: F(-4.5), Hi: F(4.75)})
			add("map-int32", true, rm.Between{L: lhs(h), Not: not, Lo: I(-4), Hi: I(5)})
		}
		add("map-int32", true, rm.Cmp{L: lhs("boss.tags.h"), Op: ">", R: F(4.5)})
		add("map-int32", true, rm.Cmp{L: anyOf("reports.tags.h"), Op: "<", R: F(4.5)})
	}
	{ // the same set symbol compared twice in one filter, with different literals (per-query symbol state must not leak
		// from one comparison into the other)
		for _, sym := range []string{"roles", "reports.s", "reports.roles"} {
			a := rm.Cmp{L: anyOf(sym), Op: "=", R: S("a")}
			b := rm.Cmp{L: anyOf(sym), Op: "=", R: S("b")}
			x := rm.Cmp{L: anyOf(sym), Op: "=", R: S("x")}
			add("same-symbol-twice", true, rm.And{A: a, B: b})
			add("same-symbol-twice", true, rm.And{A: b, B: a})
			add("same-symbol-twice", true, rm.Or{A: x, B: a})
			add("same-symbol-twice", true, rm.And{A: b, B: rm.Not{A: a}})
			add("same-symbol-twice", true, rm.And{A: rm.Cmp{L: allOf(sym), Op: "!=", R: S("b")}, B: a})
			add("same-symbol-twice", true, rm.Or{A: rm.And{A: a, B: x}, B: b})
		}
		add("same-symbol-twice", true, rm.And{A: rm.Cmp{L: anyOf("reports.i"), Op: "=", R: I(4)}, B: rm.Cmp{L: anyOf("reports.i"), Op: "=", R: I(5)}})
		add("same-symbol-twice", true, rm.And{A: rm.Cmp{L: lhs("s"), Op: "=", R: S("a")}, B: rm.Not{A: rm.Cmp{L: lhs("s"), Op: "=", R: S("B")}}})
	}
	{ // id and fk symbols
		add("id", true, rm.Cmp{L: lhs("id"), Op: "=", R: S("e1")})
		add("id", true, rm.Cmp{L: lhs("id"), Op: ">", R: S("e1")})
		add("id", true, rm.In{L: lhs("id"), Vals: []rm.Val{S("e2"), S("zz")}})
		add("fk", true, rm.Cmp{L: lhs("boss"), Op: "=", R: S("e1")})
		add("fk", true, rm.Cmp{L: lhs("boss"), Op: "!=", R: S("e1")})
		add("null-test", true, rm.Cmp{L: lhs("boss"), Op: "=", R: null})
		add("null-test", true, rm.Cmp{L: lhs("boss"), Op: "!=", R: null})
		add("dotted-2hop", true, rm.Cmp{L: lhs("boss.boss.s"), Op: "=", R: S("a")})
		add("dotted-2hop", true, rm.Cmp{L: lhs("boss.boss.s"), Op: "=", R: null})
		add("dotted-id", true, rm.Cmp{L: lhs("boss.id"), Op: "=", R: S("e2")})
		add("dotted-bool", true, rm.BoolSym{Sym: "boss.b"})
		add("dotted-map", true, rm.Cmp{L: lhs("boss.tags.k"), Op: "=", R: S("a")})
	}
	// ---- set functions over direct string set (seekable), dotted sets (scan) and link sets
	for _, sym := range []string{"roles", "reports.roles", "boss.roles"} {
		lits := []rm.Val{S("a"), S("b"), S("x"), S("ab")}
		if sym != "roles" {
			lits = []rm.Val{S("a"), S("x")}
		}
		for _, fn := range []func(string) rm.Lhs{anyOf, allOf} {
			for _, l := range lits {
				for _, op := range cmpOps {
					add("set-cmp:"+sym, true, rm.Cmp{L: fn(sym), Op: op, R: l})
				}
				add("set-contains:"+sym, true, rm.Cmp{L: fn(sym), Op: "contains", R: l})
				add("set-contains:"+sym, true, rm.Cmp{L: fn(sym), Op: "not contains", R: l})
			}
			add("set-contains:"+sym, true, rm.Cmp{L: fn(sym), Op: "icontains", R: S("A")})
			add("set-in:"+sym, true, rm.In{L: fn(sym), Vals: []rm.Val{S("a"), S("x")}})
			add("set-in:"+sym, true, rm.In{L: fn(sym), Vals: []rm.Val{S("b")}})
		}
		add("isEmpty:"+sym, true, rm.IsEmpty{Sym: sym})
		add("isEmpty:"+sym, true, rm.Not{A: rm.IsEmpty{Sym: sym}})
	}
	for _, op := range cmpOps {
		for _, n := range []int64{0, 1, 2} {
			add("count", true, rm.Cmp{L: countOf("roles"), Op: op, R: I(n)})
		}
	}
	add("count", true, rm.In{L: countOf("roles"), Vals: []rm.Val{I(0), I(2)}})
	add("count", true, rm.Between{L: countOf("roles"), Lo: I(1), Hi: I(3)})
	add("count", true, rm.Cmp{L: countOf("roles"), Op: ">", R: F(1.5)})
	for _, sym := range []string{"reports", "places"} {
		other := map[string]string{"reports": "e2", "places": "l1"}[sym]
		add("entity-set", true, rm.Cmp{L: anyOf(sym), Op: "=", R: S(other)})
		add("entity-set", true, rm.Cmp{L: allOf(sym), Op: "=", R: S(other)})
		add("entity-set", true, rm.Cmp{L: anyOf(sym), Op: "!=", R: S(other)})
		add("entity-set", true, rm.In{L: anyOf(sym), Vals: []rm.Val{S(other), S("zz")}})
		for _, n := range []int64{0, 1, 2} {
			add("entity-set-count", true, rm.Cmp{L: countOf(sym), Op: "=", R: I(n)})
			add("entity-set-count", true, rm.Cmp{L: countOf(sym), Op: ">=", R: I(n)})
		}
		add("entity-set-empty", true, rm.IsEmpty{Sym: sym})
	}
	for _, fn := range []func(string) rm.Lhs{anyOf, allOf} {
		add("dotted-set-scalar", true, rm.Cmp{L: fn("reports.s"), Op: "=", R: S("a")})
		add("dotted-set-scalar", true, rm.Cmp{L: fn("reports.s"), Op: "!=", R: S("a")})
		add("dotted-set-scalar", true, rm.Cmp{L: fn("reports.s"), Op: "contains", R: S("a")})
		add("dotted-set-scalar", true, rm.Cmp{L: fn("reports.s"), Op: "not contains", R: S("a")})
		add("dotted-set-scalar", true, rm.Cmp{L: fn("reports.s"), Op: "<", R: S("ab")})
		add("dotted-set-int", true, rm.Cmp{L: fn("reports.i"), Op: ">", R: I(4)})
		add("dotted-set-int", true, rm.Cmp{L: fn("reports.i"), Op: ">=", R: F(4.5)})
		add("dotted-set-int", true, rm.In{L: fn("reports.i"), Vals: []rm.Val{I(4), I(5)}})
		add("dotted-set-int", true, rm.Between{L: fn("reports.i"), Lo: I(4), Hi: I(6)})
		add("dotted-set-bool", true, rm.Cmp{L: fn("reports.b"), Op: "=", R: B(true)})
		add("dotted-set-time", true, rm.Cmp{L: fn("reports.t"), Op: "<", R: T(qTmid)})
		add("dotted-set-map", true, rm.Cmp{L: fn("reports.tags.k"), Op: "=", R: S("a")})
		add("dotted-link-name", true, rm.Cmp{L: fn("places.name"), Op: "=", R: S("x")})
		add("dotted-link-name", true, rm.Cmp{L: fn("places.name"), Op: "!=", R: S("y")})
		add("dotted-link-name", true, rm.In{L: fn("places.name"), Vals: []rm.Val{S("y")}})
		add("dotted-link-back", true, rm.Cmp{L: fn("places.people"), Op: "=", R: S("e2")})
		add("dotted-set-fk-field", true, rm.Cmp{L: fn("reports.boss.s"), Op: "=", R: S("a")})
		add("dotted-set-fk-field", true, rm.Cmp{L: fn("reports.boss.id"), Op: "=", R: S("e1")})
		add("dotted-set-id", true, rm.Cmp{L: fn("reports.id"), Op: "=", R: S("e2")})
		// a set below a set: the traversal has to back up from an inner set that is empty / was never created
		for _, other := range []string{"e1", "e2"} {
			add("dotted-2hop-set", true, rm.Cmp{L: fn("reports.reports"), Op: "=", R: S(other)})
			add("dotted-2hop-set", true, rm.Cmp{L: fn("reports.reports"), Op: "!=", R: S(other)})
		}
		add("dotted-2hop-set", true, rm.Cmp{L: fn("reports.reports.s"), Op: "=", R: S("a")})
		add("dotted-2hop-set", true, rm.Cmp{L: fn("reports.reports.roles"), Op: "=", R: S("a")})
		add("dotted-2hop-set", true, rm.Cmp{L: fn("reports.places"), Op: "=", R: S("l1")})
		add("dotted-2hop-set", true, rm.Cmp{L: fn("reports.places.name"), Op: "=", R: S("y")})
		add("dotted-2hop-set", true, rm.Cmp{L: fn("places.people.reports"), Op: "=", R: S("e1")})
	}
	// less common argument shapes: three-element and repeating arrays, equal and reversed bounds, between behind a dot
	add("arg-shapes", true, rm.In{L: lhs("i"), Vals: []rm.Val{I(4), I(5), I(6)}})
	add("arg-shapes", true, rm.In{L: lhs("i"), Not: true, Vals: []rm.Val{I(4), I(4), I(6)}})
	add("arg-shapes", true, rm.In{L: lhs("s"), Vals: []rm.Val{S("a"), S("a"), S("")}})
	add("arg-shapes", true, rm.In{L: anyOf("roles"), Vals: []rm.Val{S("x"), S("b"), S("x")}})
	add("arg-shapes", true, rm.Between{L: lhs("i"), Lo: I(5), Hi: I(5)})
	add("arg-shapes", true, rm.Between{L: lhs("i"), Not: true, Lo: I(5), Hi: I(5)})
	add("arg-shapes", true, rm.Between{L: lhs("i"), Lo: I(6), Hi: I(4)})
	add("arg-shapes", true, rm.Between{L: lhs("f"), Lo: F(4.5), Hi: F(4.5)})
	add("arg-shapes", true, rm.Between{L: lhs("boss.i"), Lo: I(4), Hi: I(6)})
	add("arg-shapes", true, rm.Between{L: lhs("t"), Lo: T(qT0), Hi: T(qT0)})
	for _, fn := range []func(string) rm.Lhs{anyOf, allOf} {
		for _, op := range []string{"!=", "<", ">=", "contains"} {
			add("arg-shapes", true, rm.Not{A: rm.Cmp{L: fn("roles"), Op: op, R: S("a")}})
		}
		add("arg-shapes", true, rm.Not{A: rm.Cmp{L: fn("reports.s"), Op: "!=", R: S("a")}})
		add("arg-shapes", true, rm.Not{A: rm.In{L: fn("roles"), Vals: []rm.Val{S("a"), S("x")}}})
	}
	add("arg-shapes", true, rm.Not{A: rm.IsEmpty{Sym: "roles"}})
	add("arg-shapes", true, rm.Not{A: rm.Cmp{L: anyOf("roles"), Op: "=", R: S("a")}})
	add("arg-shapes", true, rm.Not{A: rm.Cmp{L: countOf("roles"), Op: ">", R: I(1)}})
	// symbols registered under a name that differs from the stored key
	for _, op := range []string{"=", "!=", "<", "contains"} {
		add("symbol-with-key", true, rm.Cmp{L: lhs("sk"), Op: op, R: S("a")})
	}
	add("symbol-with-key", true, rm.Cmp{L: lhs("sk"), Op: "=", R: rm.Null})
	add("symbol-with-key", true, rm.Cmp{L: lhs("chief"), Op: "=", R: S("e1")})
	add("symbol-with-key", true, rm.Cmp{L: lhs("chief"), Op: "!=", R: rm.Null})
	add("symbol-with-key", true, rm.Cmp{L: lhs("chief.s"), Op: "=", R: S("a")})
	add("symbol-with-key", true, rm.Cmp{L: lhs("chief.sk"), Op: "!=", R: S("a")})
	add("symbol-with-key", true, rm.Cmp{L: anyOf("reports.chief.sk"), Op: "=", R: S("a")})
	// a single-valued hop in front of a set (the middle level has several members)
	for _, fn := range []func(string) rm.Lhs{anyOf, allOf} {
		for _, other := range []string{"e1", "e3"} {
			add("dotted-3hop", true, rm.Cmp{L: fn("boss.reports"), Op: "=", R: S(other)})
		}
		add("dotted-3hop", true, rm.Cmp{L: fn("boss.reports.s"), Op: "=", R: S("a")})
		add("dotted-3hop", true, rm.Cmp{L: fn("boss.reports.s"), Op: "!=", R: S("a")})
		add("dotted-3hop", true, rm.Cmp{L: fn("boss.boss.reports.s"), Op: "=", R: S("a")})
		add("dotted-3hop", true, rm.Cmp{L: fn("reports.boss.reports.s"), Op: "=", R: S("a")})
	}
	add("dotted-3hop", true, rm.IsEmpty{Sym: "boss.reports"})
	// the value of a count over a multi-hop set (bag or set of elements?) is not settled by the documentation: these
	// atoms are only required to give the same answer on every route and on committed / uncommitted pages
	for _, n := range []int64{0, 1, 2} {
		add("route-only:multi-hop-count", false, rm.Cmp{L: countOf("reports.reports"), Op: "=", R: I(n)})
		add("route-only:multi-hop-count", false, rm.Cmp{L: countOf("reports.places"), Op: ">", R: I(n)})
		add("route-only:multi-hop-count", false, rm.Cmp{L: countOf("reports.roles"), Op: ">=", R: I(n)})
		add("route-only:multi-hop-count", false, rm.Cmp{L: countOf("boss.reports"), Op: "=", R: I(n)})
	}
	add("dotted-2hop-set", true, rm.IsEmpty{Sym: "reports.reports"})
	add("dotted-2hop-set", true, rm.IsEmpty{Sym: "reports.places"})
	add("dotted-link-name", true, rm.IsEmpty{Sym: "places.name"})
	// ---- sub-queries
	subs := []*rm.SubQ{
		{Sym: "reports", Where: rm.Cmp{L: lhs("s"), Op: "=", R: S("a")}},
		{Sym: "reports", Where: rm.Cmp{L: lhs("s"), Op: "!=", R: S("a")}},
		{Sym: "reports", Where: rm.Cmp{L: lhs("i"), Op: ">", R: I(4)}},
		{Sym: "reports", Where: rm.BoolConst{V: true}},
		{Sym: "reports", Where: rm.Cmp{L: anyOf("roles"), Op: "=", R: S("a")}},
		{Sym: "places", Where: rm.Cmp{L: lhs("name"), Op: "=", R: S("x")}},
		{Sym: "places", Where: rm.Cmp{L: anyOf("people"), Op: "=", R: S("e2")}},
	}
	if thorough {
		subs = append(subs,
			&rm.SubQ{Sym: "reports", Where: rm.BoolConst{V: true}, Skip: i64p(1)},
			&rm.SubQ{Sym: "reports", Where: rm.BoolConst{V: true}, Limit: i64p(1)},
			&rm.SubQ{Sym: "reports", Where: rm.Cmp{L: lhs("s"), Op: "!=", R: S("a")}, Skip: i64p(1), Limit: i64p(1)},
			&rm.SubQ{Sym: "reports", Where: rm.BoolConst{V: true}, Limit: i64p(0)},
		)
	}
	for _, sq := range subs {
		add("subquery-isEmpty", true, rm.IsEmpty{Sub: sq})
		for _, n := range []int64{0, 1, 2} {
			add("subquery-count", true, rm.Cmp{L: countSub(sq), Op: "=", R: I(n)})
		}
		add("subquery-count", true, rm.Cmp{L: countSub(sq), Op: ">", R: I(0)})
	}
	return out
}

// representative atoms for boolean compositions
func c01Composable() []rm.Expr {
	S, I := rm.Str, rm.Int
	return []rm.Expr{
		rm.Cmp{L: lhs("s"), Op: "=", R: S("a")},
		rm.Cmp{L: lhs("s"), Op: "!=", R: S("a")},
		rm.Cmp{L: lhs("s"), Op: "not contains", R: S("a")},
		rm.Cmp{L: lhs("s"), Op: "=", R: rm.Null},
		rm.Cmp{L: lhs("i"), Op: ">", R: I(4)},
		rm.Between{L: lhs("i"), Not: true, Lo: I(4), Hi: I(5)},
		rm.BoolSym{Sym: "b"},
		rm.Cmp{L: anyOf("roles"), Op: "=", R: S("a")},
		rm.Cmp{L: allOf("roles"), Op: "!=", R: S("x")},
		rm.IsEmpty{Sym: "roles"},
		rm.Cmp{L: countOf("roles"), Op: ">", R: I(1)},
		rm.BoolConst{V: true},
	}
}

type c01Filter struct {
	e         rm.Expr
	text      string
	mandatory bool
	class     string
	fields    []string
	query     ast.Query
	rejected  bool
}

func uniqSorted(l []string) []string {
	sort.Strings(l)
	var out []string
	for i, s := range l {
		if i == 0 || s != l[i-1] {
			out = append(out, s)
		}
	}
	return out
}

func C01(tier string) int {
	rep := report.New("C01", tier, "exploration")
	thorough := tier != "quick"
	rep.Assume("reference evaluator is written from the documented semantics (ast README + property statement); rows whose answer the documentation does not settle are skipped and counted")
	rep.Assume("mixed and/or is always parenthesised here (grouping is C12)")
	rep.Set("rule", "every atom (symbol kind x operator x literal) and every 2-atom (thorough: 3-atom) composition x ALL assignments of the mentioned fields over tiny domains on 2 (thorough: 3 for single-field families) entities; routes QueryIds/QueryIdsC/IterateIds; distinct = distinct (filter, dataset) pairs")

	var filters []*c01Filter
	for _, a := range c01Atoms(thorough) {
		filters = append(filters, &c01Filter{e: a.e, text: a.e.Text(), mandatory: a.mandatory, class: a.class, fields: exprFields(a.e)})
	}
	comp := c01Composable()
	for i, a := range comp {
		for j, b := range comp {
			if i == j {
				continue
			}
			for _, e := range []rm.Expr{rm.And{A: a, B: b}, rm.Or{A: a, B: b}, rm.And{A: rm.Not{A: a}, B: b}} {
				f := &c01Filter{e: e, text: e.Text(), mandatory: true, class: "composition-2", fields: exprFields(e)}
				if len(f.fields) <= 2 {
					filters = append(filters, f)
				}
			}
			if thorough {
				for k, c := range comp {
					if k == i || k == j || k%3 != 0 {
						continue
					}
					for _, e := range []rm.Expr{rm.Or{A: rm.And{A: a, B: b}, B: c}, rm.And{A: a, B: rm.Or{A: b, B: rm.Not{A: c}}}} {
						f := &c01Filter{e: e, text: e.Text(), mandatory: true, class: "composition-3", fields: exprFields(e)}
						if len(f.fields) <= 2 {
							filters = append(filters, f)
						}
					}
				}
			}
		}
	}
	rep.Count("filters", int64(len(filters)))

	// group by family
	fams := map[string][]*c01Filter{}
	for _, f := range filters {
		fams[familyKey(f.fields)] = append(fams[familyKey(f.fields)], f)
	}
	var famKeys []string
	for k := range fams {
		famKeys = append(famKeys, k)
	}
	sort.Strings(famKeys)
	rep.Set("families", famKeys)

	type job struct {
		key  string
		ids  []string
		only string // class prefix filter ("" = all filters of the family)
	}
	var jobs []job
	for _, k := range famKeys {
		jobs = append(jobs, job{k, []string{"e1", "e2"}, ""})
		if (thorough && !strings.Contains(k, "+") && k != "") || k == "boss" || k == "boss+places" {
			jobs = append(jobs, job{k, []string{"e1", "e2", "e3"}, ""})
		} else if k == "boss+s" || k == "boss+roles" {
			// three entities for the multi-hop set symbols only (a middle level with several members)
			jobs = append(jobs, job{k, []string{"e1", "e2", "e3"}, "dotted-"})
		}
	}
	var wg sync.WaitGroup
	jobCh := make(chan job)
	var typeMu sync.Mutex
	for wk := 0; wk < runtime.NumCPU(); wk++ {
		wg.Add(1)
		go func() {
			defer wg.Done()
			for j := range jobCh {
				fl := fams[j.key]
				if j.only != "" {
					fl = nil
					for _, f := range fams[j.key] {
						if strings.HasPrefix(f.class, j.only) && (strings.HasPrefix(f.class, "dotted-2hop-set") || strings.HasPrefix(f.class, "dotted-3hop")) {
							fl = append(fl, f)
						}
					}
				}
				c01RunFamily(rep, j.key, j.ids, fl, &typeMu)
			}
		}()
	}
	for _, j := range jobs {
		jobCh <- j
	}
	close(jobCh)
	wg.Wait()
	boundaryPass(rep, "C01", true, false, false)
	rep.Set("evaluations", rep.Get("evaluations"))
	rep.Set("distinct_nontrivial", int(rep.Get("compared_pairs")))
	return rep.Finish()
}

func safeParse(store boltz.Store, text string) (q ast.Query, err error, panicked interface{}) {
	defer func() {
		if r := recover(); r != nil {
			panicked = r
		}
	}()
	q, err = ast.Parse(store, text)
	return
}

func c01RunFamily(rep *report.Report, key string, ids []string, filters []*c01Filter, typeMu *sync.Mutex) {
	w := newQWorld()
	w.open()
	defer w.close()
	var fields []string
	if key != "" {
		fields = strings.Split(key, "+")
	}
	// parse once per family run (each worker has its own world/stores)
	type pf struct {
		f *c01Filter
		q ast.Query
	}
	var parsed []pf
	for _, f := range filters {
		q, err, p := safeParse(w.people, f.text)
		if p != nil {
			rep.Violation("C01|panic-in-parse|"+f.text, fmt.Sprintf("parsing %q panicked: %v", f.text, p), map[string]interface{}{"filter": f.text})
			continue
		}
		if err != nil {
			if f.mandatory {
				rep.Violation("C01|well-typed-filter-rejected|"+f.text, fmt.Sprintf("well-typed filter %q rejected: %v", f.text, err), map[string]interface{}{"filter": f.text})
			} else {
				rep.Count("rejected_by_typer_optional_class", 1)
			}
			continue
		}
		parsed = append(parsed, pf{f, q})
	}
	first := true
	qDatasets(fields, ids, func(ds *rm.DS, label string) {
		if rep.TooMany() {
			return
		}
		// every (filter, dataset) pair is evaluated twice: inside the transaction that wrote the dataset
		// (uncommitted pages) and in a read transaction after the commit (committed pages)
		unspecSeen := map[string]string{} // per dataset: filter text -> answer inside the writing transaction
		evalAll := func(tx *bbolt.Tx, mode string) {
			for _, p := range parsed {
				var want []string
				unspecified := strings.HasPrefix(p.f.class, "route-only")
				for _, id := range ds.Stores["people"].Ids() {
					if unspecified {
						break
					}
					switch ds.Eval("people", id, p.f.e) {
					case rm.True:
						want = append(want, id)
					case rm.Unspecified:
						unspecified = true
					}
				}
				if unspecified {
					rep.Count("rows_skipped_unspecified", 1)
					// the documentation does not settle the answer, but it still must not depend on the route taken
					// (scan vs cursor iteration) nor on whether the data is committed yet
					var a, b []string
					var pan interface{}
					func() {
						defer func() { pan = recover() }()
						a, _, _ = w.people.QueryIdsC(tx, p.q)
						b = drain(w.people.IterateIds(tx, p.q))
					}()
					key := p.f.text
					switch {
					case pan != nil:
						rep.Violation("C01|panic-in-eval|"+p.f.text, fmt.Sprintf("%q panicked on %s: %v", p.f.text, label, pan), map[string]interface{}{"filter": p.f.text, "dataset": label})
					case strings.Join(a, ",") != strings.Join(b, ","):
						rep.Violation("C01|routes-disagree|"+p.f.text, fmt.Sprintf("%q on %s [%s]: QueryIdsC = %v but IterateIds = %v", p.f.text, label, mode, a, b), map[string]interface{}{"filter": p.f.text, "dataset": label})
					case mode == "uncommitted":
						unspecSeen[key] = strings.Join(a, ",")
					default:
						if prev, ok := unspecSeen[key]; ok && prev != strings.Join(a, ",") {
							rep.Violation("C01|pages-disagree|"+p.f.text, fmt.Sprintf("%q on %s: %v inside the writing transaction, %v after the commit", p.f.text, label, prev, a), map[string]interface{}{"filter": p.f.text, "dataset": label})
						}
					}
					rep.Count("unspecified_rows_route_agreement_checks", 1)
					continue
				}
				rep.Count("evaluations", 1)
				rep.Count("compared_pairs", 1)
				rep.Count("pairs_"+mode, 1)
				ws := strings.Join(want, ",")
				check := func(route string, got []string, err error, pan interface{}) {
					if pan != nil {
						rep.Violation("C01|panic-in-eval|"+p.f.text, fmt.Sprintf("%s of %q panicked on %s: %v", route, p.f.text, label, pan), map[string]interface{}{"filter": p.f.text, "dataset": label})
						return
					}
					if err != nil {
						rep.Violation("C01|eval-error|"+p.f.text, fmt.Sprintf("%s of %q failed: %v", route, p.f.text, err), map[string]interface{}{"filter": p.f.text, "dataset": label})
						return
					}
					if strings.Join(got, ",") != ws {
						rep.Violation("C01|wrong-result|"+p.f.text, fmt.Sprintf("%s(%q) on %s [%s] = %v, reference says %v", route, p.f.text, label, mode, got, want), map[string]interface{}{"filter": p.f.text, "dataset": label, "route": route, "got": got, "want": want})
					}
				}
				func() {
					var got []string
					var err error
					var pan interface{}
					func() {
						defer func() { pan = recover() }()
						got, _, err = w.people.QueryIdsC(tx, p.q)
					}()
					check("QueryIdsC", got, err, pan)
				}()
				func() {
					var got []string
					var pan interface{}
					func() {
						defer func() { pan = recover() }()
						got = drain(w.people.IterateIds(tx, p.q))
					}()
					check("IterateIds", got, nil, pan)
				}()
				if first {
					func() {
						var got []string
						var err error
						var pan interface{}
						func() {
							defer func() { pan = recover() }()
							got, _, err = w.people.QueryIds(tx, p.f.text)
						}()
						check("QueryIds", got, err, pan)
					}()
				}
				rep.Outcome(p.f.class)
			}
			first = false
		}
		_ = w.db.Update(nil, func(ctx boltz.MutateContext) error {
			if err := w.materialise(ctx, ds); err != nil {
				rep.Violation("C01|materialise|"+label, "cannot build dataset: "+err.Error(), map[string]interface{}{"dataset": label})
				return errSkip
			}
			evalAll(ctx.Tx(), "uncommitted")
			return errSkip
		})
		if err := w.committed(ds, func(tx *bbolt.Tx) { evalAll(tx, "committed") }); err != nil {
			rep.Violation("C01|materialise-committed|"+label, "cannot build/commit/clear dataset: "+err.Error(), map[string]interface{}{"dataset": label})
		}
	})
	if len(parsed) > 0 {
		rep.Sample(map[string]interface{}{"family": key, "entities": len(ids), "filter": parsed[0].f.text})
	}
}
