package checks

// Registry maps property ids to check entry points.
var Registry = map[string]func(tier string) int{
	"C03": C03,
}
