package checks

import (
	"fmt"
	"os"
	"sort"
	"strings"

	"github.com/openziti/storage/ast"
	"github.com/openziti/storage/boltz"
	"go.etcd.io/bbolt"
	"verif/explore"
	rm "verif/refmodel"
	"verif/report"
	"verif/world"
)

// c11Bolt: literals inside filters with SEVERAL string literals, evaluated by the bolt-backed store (index seeks, set
// cursors, per-query symbol state): for every ordered pair (s1, s2) of a pool of strings that differ only in how a
// careless reader would treat their escapes, three entities hold {s1}, {s2} and {s1, s2} (as set elements and as a
// scalar); conjunctions and disjunctions of two comparisons must select exactly the entities the two strings select.
func c11Bolt(rep *report.Report, thorough bool) {
	dir := explore.TmpDir("c11bolt")
	defer os.RemoveAll(dir)
	pool := []string{"", "a", `x\ny`, "x\ny", `x\\ny`, `a"b`, `a\"b`, `\`, `\\`, "é", `\t`, "\t", " a", "a "}
	if !thorough {
		pool = pool[:10]
	}
	n := 0
	for i, s1 := range pool {
		for j, s2 := range pool {
			if i == j {
				continue
			}
			n++
			store := world.NewStore(&world.Spec{EntityType: "docs", BasePath: []string{"root"}, Fields: []world.Field{{Name: "f", Kind: world.KString}, {Name: "tags", Kind: world.KStringList}}})
			store.AddIdSymbol("id", ast.NodeTypeString)
			store.AddSymbol("f", ast.NodeTypeString)
			store.AddSetSymbol("tags", ast.NodeTypeString)
			path := fmt.Sprintf("%s/p%d.db", dir, n)
			db, err := boltz.Open(path, "root")
			if err != nil {
				panic(err)
			}
			type ent struct {
				id   string
				f    string
				tags []string
			}
			ents := []ent{{"e1", s1, []string{s1}}, {"e2", s2, []string{s2}}, {"e3", "zz", []string{s1, s2}}, {"e4", "zz", []string{"zz"}}}
			if err := db.Update(nil, func(ctx boltz.MutateContext) error {
				for _, e := range ents {
					if err := store.Create(ctx, world.NewRec("docs", e.id).With("f", e.f).With("tags", e.tags)); err != nil {
						return err
					}
				}
				return nil
			}); err != nil {
				panic(err)
			}
			l1, l2 := rm.QuoteZql(s1), rm.QuoteZql(s2)
			has := func(e ent, s string) bool {
				for _, t := range e.tags {
					if t == s {
						return true
					}
				}
				return false
			}
			queries := []struct {
				text string
				want func(e ent) bool
			}{
				{"anyOf(tags) = " + l1 + " and anyOf(tags) = " + l2, func(e ent) bool { return has(e, s1) && has(e, s2) }},
				{"anyOf(tags) = " + l2 + " and anyOf(tags) = " + l1, func(e ent) bool { return has(e, s1) && has(e, s2) }},
				{"anyOf(tags) = " + l1 + " or anyOf(tags) = " + l2, func(e ent) bool { return has(e, s1) || has(e, s2) }},
				{"anyOf(tags) = " + l1 + " and not (anyOf(tags) = " + l2 + ")", func(e ent) bool { return has(e, s1) && !has(e, s2) }},
				{"anyOf(tags) in [" + l1 + ", " + l2 + "]", func(e ent) bool { return has(e, s1) || has(e, s2) }},
				{"allOf(tags) != " + l1 + " and anyOf(tags) = " + l2, func(e ent) bool { return !has(e, s1) && has(e, s2) }},
				{"f = " + l1 + " or f = " + l2, func(e ent) bool { return e.f == s1 || e.f == s2 }},
				{"f != " + l1 + " and f != " + l2, func(e ent) bool { return e.f != s1 && e.f != s2 }},
				{"f in [" + l2 + ", " + l1 + "]", func(e ent) bool { return e.f == s1 || e.f == s2 }},
				{"f = " + l1 + " and anyOf(tags) = " + l1 + " and not (f = " + l2 + ")", func(e ent) bool { return e.f == s1 && has(e, s1) && e.f != s2 }},
			}
			_ = db.View(func(tx *bbolt.Tx) error {
				for _, q := range queries {
					rep.Count("evaluations", 1)
					rep.Count("two_literal_queries", 1)
					var want []string
					for _, e := range ents {
						if q.want(e) {
							want = append(want, e.id)
						}
					}
					sort.Strings(want)
					got, _, err := store.QueryIds(tx, q.text)
					if err != nil {
						rep.Violation("C11|two-literals|rejected|"+q.text, fmt.Sprintf("%q rejected: %v", q.text, err), map[string]interface{}{"query": q.text})
						continue
					}
					if strings.Join(got, ",") != strings.Join(want, ",") {
						rep.Violation("C11|two-literals|wrong-result|"+q.text, fmt.Sprintf("%q over e1{%q} e2{%q} e3{both} returns %v, expected %v", q.text, s1, s2, got, want), map[string]interface{}{"query": q.text, "s1": s1, "s2": s2})
					}
				}
				return nil
			})
			_ = db.Close()
			_ = os.Remove(path)
		}
	}
}
