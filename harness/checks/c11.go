package checks

import (
	"fmt"
	"strings"
	"time"

	"github.com/openziti/storage/ast"
	"github.com/openziti/storage/zitiql"
	rm "verif/refmodel"
	"verif/report"
)

// ---------------------------------------------------------------------------------------------
// C11 — string literals denote exactly the intended string.

// strSyms: one string symbol f whose value is set per evaluation.
type strSyms struct{ v *string }

func (s *strSyms) GetSymbolType(name string) (ast.NodeType, bool) {
	return ast.NodeTypeString, name == "f"
}
func (s *strSyms) GetSetSymbolTypes(string) ast.SymbolTypes              { return nil }
func (s *strSyms) IsSet(name string) (bool, bool)                        { return false, name == "f" }
func (s *strSyms) EvalBool(string) *bool                                 { return nil }
func (s *strSyms) EvalString(string) *string                             { return s.v }
func (s *strSyms) EvalInt64(string) *int64                               { return nil }
func (s *strSyms) EvalFloat64(string) *float64                           { return nil }
func (s *strSyms) EvalDatetime(string) *time.Time                        { return nil }
func (s *strSyms) IsNil(string) bool                                     { return s.v == nil }
func (s *strSyms) OpenSetCursor(string) ast.SetCursor                    { return ast.NewEmptyCursor() }
func (s *strSyms) OpenSetCursorForQuery(string, ast.Query) ast.SetCursor { return ast.NewEmptyCursor() }

// refUnescape is the single-pass reading of a literal body per the grammar's ESC rule.
func refUnescape(body string) (string, bool) {
	var b strings.Builder
	for i := 0; i < len(body); i++ {
		c := body[i]
		if c == '"' {
			return "", false // unescaped quote cannot occur inside a literal
		}
		if c < 0x20 {
			return "", false
		}
		if c != '\\' {
			b.WriteByte(c)
			continue
		}
		if i+1 >= len(body) {
			return "", false
		}
		i++
		switch body[i] {
		case '\\':
			b.WriteByte('\\')
		case '"':
			b.WriteByte('"')
		case 'n':
			b.WriteByte('\n')
		case 't':
			b.WriteByte('\t')
		case 'r':
			b.WriteByte('\r')
		case 'f':
			b.WriteByte('\f')
		default:
			return "", false
		}
	}
	return b.String(), true
}

func allStrings(alphabet []string, maxLen int, f func(s string)) {
	var rec func(cur string, n int)
	rec = func(cur string, n int) {
		f(cur)
		if n == maxLen {
			return
		}
		for _, a := range alphabet {
			rec(cur+a, n+1)
		}
	}
	rec("", 0)
}

func C11(tier string) int {
	rep := report.New("C11", tier, "exploration")
	maxLen := 4
	if tier != "quick" {
		maxLen = 5
	}
	rep.Set("rule", fmt.Sprintf("ALL strings of length <= %d over {a,n,t,\\,\",space,LF,TAB,CR,FF,e-acute}: canonical literal must denote exactly s as operand of =, !=, in, contains, not contains (and in ParseZqlString); ALL lexer-valid literal bodies of length <= %d over {a,n,t,f,\\,\"} against a single-pass unescaper", maxLen, maxLen+1))
	syms := &strSyms{}
	evalWith := func(q ast.Query, v string) (res bool, pan interface{}) {
		defer func() { pan = recover() }()
		syms.v = &v
		return q.EvalBool(syms), nil
	}
	alphabet := []string{"a", "n", "t", `\`, `"`, " ", "\n", "\t", "\r", "\f", "é"}
	checkString := func(s string) {
		if rep.TooMany() {
			return
		}
		lit := rm.QuoteZql(s)
		rep.Count("evaluations", 1)
		rep.Count("compared_pairs", 1)
		if got := zitiql.ParseZqlString(lit); got != s {
			rep.Violation("C11|unescape|"+lit, fmt.Sprintf("ParseZqlString(%s) = %q, the literal is the canonical spelling of %q", lit, got, s), map[string]interface{}{"literal": lit, "want": s, "got": got})
			return
		}
		type pos struct {
			text string
			at   map[string]bool // candidate value -> expected result
		}
		other := s + "x"
		positions := []pos{
			{"f = " + lit, map[string]bool{s: true, other: false}},
			{"f != " + lit, map[string]bool{s: false, other: true}},
			{"f in [" + lit + "]", map[string]bool{s: true, other: false}},
			{`f in ["zz", ` + lit + "]", map[string]bool{s: true, other: false}},
			{"f not in [" + lit + "]", map[string]bool{s: false, other: true}},
			{"f contains " + lit, map[string]bool{s: true, "q" + s + "q": true}},
			{"f not contains " + lit, map[string]bool{s: false}},
			{"f = " + lit + ` or f = "never"`, map[string]bool{s: true, other: false}},
			{"f icontains " + lit, map[string]bool{s: true, "q" + s + "q": true}},
			{"f not icontains " + lit, map[string]bool{s: false}},
			// long lists (an implementation may switch to another lookup structure above some size)
			{`f in ["n1", "n2", "n3", "n4", "n5", "n6", "n7", "n8", ` + lit + `, "n9", "n10", "n11", "n12", "n13", "n14", "n15", "n16"]`, map[string]bool{s: true, other: false, "n3": true}},
			{"f in [" + lit + `, "n1", "n2", "n3", "n4", "n5", "n6", "n7", "n8"]`, map[string]bool{s: true, other: false}},
			{`f not in ["n1", "n2", "n3", "n4", "n5", "n6", "n7", "n8", "n9", "n10", "n11", "n12", "n13", "n14", "n15", "n16", "n17", "n18", "n19", "n20", "n21", "n22", "n23", "n24", "n25", "n26", "n27", "n28", "n29", "n30", "n31", "n32", ` + lit + "]", map[string]bool{s: false, other: true}},
		}
		if s != "" && !strings.Contains(s, "é") {
			// case-insensitive: the ASCII upper-case spelling of the field matches, a shorter field does not
			positions[8].at[strings.ToUpper(s)] = true
			positions[8].at[s[:len(s)-1]] = false
		}
		if s != "" {
			positions[5].at[s[:len(s)-1]] = false
		}
		for _, p := range positions {
			q, err, pan := func() (q ast.Query, err error, pan interface{}) {
				defer func() { pan = recover() }()
				q, err = ast.Parse(syms, p.text)
				return
			}()
			if pan != nil || err != nil {
				rep.Violation("C11|literal-rejected|"+p.text, fmt.Sprintf("%q rejected: err=%v panic=%v", p.text, err, pan), map[string]interface{}{"query": p.text, "string": s})
				continue
			}
			for v, want := range p.at {
				got, pan := evalWith(q, v)
				if pan != nil || got != want {
					rep.Violation("C11|wrong-denotation|"+p.text, fmt.Sprintf("%q evaluated with f=%q gives %v, expected %v (literal should denote %q) panic=%v", p.text, v, got, want, s, pan), map[string]interface{}{"query": p.text, "field": v, "string": s})
				}
			}
		}
		if n := len([]rune(s)); n <= maxLen {
			rep.Outcome(fmt.Sprintf("len-%d", n))
		} else {
			rep.Outcome("long")
		}
	}
	allStrings(alphabet, maxLen, checkString)
	// long literals: lengths around powers of two, one special character (quote, backslash, line feed, a
	// multi-byte character) at the start, in the middle and at the end of a run of plain letters
	// the plain run cycles through different letters (so that a dropped, repeated or shifted byte changes the
	// string) and puts n, t, r, f right behind the special character at some offset
	plain := func(n, off int) string {
		const cyc = "ntrfabcdxyz"
		b := make([]byte, n)
		for i := range b {
			b[i] = cyc[(i+off)%len(cyc)]
		}
		return string(b)
	}
	for _, n := range []int{7, 8, 9, 15, 16, 17, 31, 32, 33, 63, 64, 65, 255, 256, 257, 1023, 1024, 1025, 4096} {
		checkString(strings.Repeat("a", n))
		checkString(plain(n, 4))
		for _, sp := range []string{`"`, `\`, "\n", "é", `\n`, `\"`} {
			for off := 0; off < 4; off++ {
				checkString(sp + plain(n-1, off))
				checkString(plain(n/2, off+1) + sp + plain(n-n/2-1, off))
			}
			checkString(plain(n-1, 5) + sp)
			checkString(strings.Repeat("a", n/2) + sp + strings.Repeat("é", n-n/2-1) + sp)
			checkString(sp + plain(n/3, 0) + sp + plain(n/3, 1) + sp + plain(n/3, 2))
		}
	}
	// all lexer-valid literal bodies
	seen := map[string]string{}
	allStrings([]string{"a", "n", "t", "f", `\`, `"`}, maxLen+1, func(body string) {
		want, valid := refUnescape(body)
		if !valid {
			return
		}
		rep.Count("literal_bodies", 1)
		rep.Count("evaluations", 1)
		lit := `"` + body + `"`
		got := zitiql.ParseZqlString(lit)
		if got != want {
			rep.Violation("C11|unescape-body|"+lit, fmt.Sprintf("ParseZqlString(%s) = %q, single-pass reading gives %q", lit, got, want), map[string]interface{}{"literal": lit})
		}
		if prev, ok := seen[got]; ok && prev != body {
			// two different escape spellings denote the same string only if their single-pass readings are equal
			pw, _ := refUnescape(prev)
			if pw != want {
				rep.Violation("C11|collision|"+lit, fmt.Sprintf("literals \"%s\" and %s denote the same value %q although they spell different strings (%q vs %q)", prev, lit, got, pw, want), nil)
			}
		}
		seen[got] = body
	})
	c11Bolt(rep, tier != "quick")
	rep.Sample(map[string]interface{}{"string": "a\\nb", "canonical_literal": rm.QuoteZql("a\\nb")})
	rep.Sample(map[string]interface{}{"string": "tab\there \"q\"", "canonical_literal": rm.QuoteZql("tab\there \"q\"")})
	rep.Set("evaluations", rep.Get("evaluations"))
	rep.Set("distinct_nontrivial", int(rep.Get("compared_pairs")))
	return rep.Finish()
}
