package checks

import (
	"fmt"
	"math"
	"os"
	"runtime"
	"sort"
	"strings"
	"sync"
	"sync/atomic"
	"verif/explore"
	"verif/world"

	"github.com/openziti/storage/ast"
	"github.com/openziti/storage/boltz"
	"go.etcd.io/bbolt"
	rm "verif/refmodel"
	"verif/report"
)

// ---------------------------------------------------------------------------------------------
// C02 — sort order, skip, limit and total count are exact.

type pageSpec struct {
	skip  *int64
	limit *int64 // -1 = "none" when limitNone
	none  bool
}

func (p pageSpec) text() string {
	var parts []string
	if p.skip != nil {
		parts = append(parts, fmt.Sprintf("skip %d", *p.skip))
	}
	if p.none {
		parts = append(parts, "limit none")
	} else if p.limit != nil {
		parts = append(parts, fmt.Sprintf("limit %d", *p.limit))
	}
	return strings.Join(parts, " ")
}

func (p pageSpec) ref() (int64, int64) {
	skip, limit := int64(0), int64(-1)
	if p.skip != nil {
		skip = *p.skip
	}
	if !p.none && p.limit != nil {
		limit = *p.limit
	}
	return skip, limit
}

func sortText(sf []rm.SortField) string {
	if len(sf) == 0 {
		return ""
	}
	var parts []string
	for _, f := range sf {
		t := f.Sym
		if f.Desc {
			t += " desc"
		} else if f.Explicit {
			t += " asc"
		}
		parts = append(parts, t)
	}
	return "sort by " + strings.Join(parts, ", ")
}

type c02Case struct {
	pred   rm.Expr // nil = no predicate clause
	sortBy []rm.SortField
	page   pageSpec
	fields []string
	text   string
}

func c02Cases(thorough bool) []c02Case {
	var pages []pageSpec
	skips := []*int64{nil, i64p(-1), i64p(0), i64p(1), i64p(2), i64p(4), i64p(5)}
	limits := []pageSpec{{}, {none: true}, {limit: i64p(-1)}, {limit: i64p(0)}, {limit: i64p(1)}, {limit: i64p(2)}, {limit: i64p(4)}, {limit: i64p(5)}}
	for _, s := range skips {
		for _, l := range limits {
			pages = append(pages, pageSpec{skip: s, limit: l.limit, none: l.none})
		}
	}
	// limits and skips at the top of the integer range: skip+limit must not wrap around
	for _, s := range []*int64{nil, i64p(1), i64p(2), i64p(5)} {
		for _, l := range []int64{math.MaxInt64, math.MaxInt64 - 1, math.MaxInt64 - 2} {
			pages = append(pages, pageSpec{skip: s, limit: i64p(l)})
		}
	}
	// negative values other than -1 (a negative limit means unbounded, a negative skip means none)
	for _, s := range []*int64{nil, i64p(1), i64p(2), i64p(5), i64p(-2), i64p(math.MinInt64)} {
		for _, l := range []int64{-2, -5, math.MinInt64, math.MinInt64 + 1} {
			pages = append(pages, pageSpec{skip: s, limit: i64p(l)})
		}
	}
	pages = append(pages, pageSpec{skip: i64p(-2)}, pageSpec{skip: i64p(-2), limit: i64p(2)}, pageSpec{skip: i64p(math.MinInt64), limit: i64p(1)}, pageSpec{skip: i64p(math.MinInt64), none: true})
	for _, l := range []pageSpec{{}, {limit: i64p(1)}, {limit: i64p(math.MaxInt64)}, {none: true}} {
		pages = append(pages, pageSpec{skip: i64p(math.MaxInt64), limit: l.limit, none: l.none}, pageSpec{skip: i64p(math.MaxInt64 - 1), limit: l.limit, none: l.none})
	}
	sortFields := []string{"id", "s", "i", "f", "b", "t"}
	var sorts [][]rm.SortField
	sorts = append(sorts, nil)
	for _, f := range sortFields {
		sorts = append(sorts, []rm.SortField{{Sym: f}}, []rm.SortField{{Sym: f, Explicit: true}}, []rm.SortField{{Sym: f, Desc: true}})
	}
	for _, f1 := range sortFields {
		for _, f2 := range sortFields {
			if f1 == f2 {
				continue
			}
			if !thorough && !(f1 == "s" || f1 == "b" || (f1 == "i" && f2 == "id") || (f1 == "id" && f2 == "s")) {
				continue
			}
			for _, d1 := range []bool{false, true} {
				for _, d2 := range []bool{false, true} {
					sorts = append(sorts, []rm.SortField{{Sym: f1, Desc: d1}, {Sym: f2, Desc: d2}})
				}
			}
		}
	}
	{
		// three fields, and the five-field boundary the property names
		sorts = append(sorts,
			[]rm.SortField{{Sym: "b"}, {Sym: "s", Desc: true}, {Sym: "i"}},
			[]rm.SortField{{Sym: "b", Desc: true}, {Sym: "i"}, {Sym: "s", Desc: true}},
			[]rm.SortField{{Sym: "b"}, {Sym: "s"}, {Sym: "i"}, {Sym: "f", Desc: true}, {Sym: "t"}},
			[]rm.SortField{{Sym: "b", Desc: true}, {Sym: "s", Desc: true}, {Sym: "i", Desc: true}, {Sym: "f"}, {Sym: "t", Desc: true}},
		)
	}
	preds := []rm.Expr{nil, rm.BoolConst{V: true}, rm.Cmp{L: lhs("id"), Op: "!=", R: rm.Str("e2")}, rm.Cmp{L: lhs("id"), Op: "=", R: rm.Str("zz")}}
	var out []c02Case
	for _, sb := range sorts {
		for _, pg := range pages {
			for pi, pred := range preds {
				if !thorough && pi == 1 {
					continue
				}
				var parts []string
				if pred != nil {
					parts = append(parts, pred.Text())
				}
				if st := sortText(sb); st != "" {
					parts = append(parts, st)
				}
				if pt := pg.text(); pt != "" {
					parts = append(parts, pt)
				}
				set := map[string]bool{}
				for _, f := range sb {
					if f.Sym != "id" {
						set[f.Sym] = true
					}
				}
				var fields []string
				for f := range set {
					fields = append(fields, f)
				}
				out = append(out, c02Case{pred: pred, sortBy: sb, page: pg, fields: uniqSorted(fields), text: strings.Join(parts, " ")})
			}
		}
	}
	return out
}

// reduced domains so that 4 entities x 2 fields stay enumerable; every domain has null and a tie
var c02Domains = map[string][]rm.Val{
	"s": {rm.Null, rm.Str("a"), rm.Str("B")},
	"i": {rm.Null, rm.Int(4), rm.Int(5)},
	"f": {rm.Null, rm.Flt(4.5), rm.Flt(5.0)},
	"b": {rm.Null, rm.Bool(false), rm.Bool(true)},
	"t": {rm.Null, rm.Time(qT0), rm.Time(qT1)},
}

func C02(tier string) int {
	rep := report.New("C02", tier, "exploration")
	thorough := tier != "quick"
	rep.Assume("reference: stable sort, nulls first when ascending, id ascending tie-break, drop max(skip,0), keep <= limit (absent/negative/none = unbounded), count = matches")
	rep.Set("rule", "all sort specifications of 0..2 fields (thorough: all pairs, 3 and 5 fields) x every direction spelling x 56 skip/limit combinations x predicates {absent,true,selective,empty} x ALL assignments of the sort fields over {null,v1,v2} on 4 entities (two-field sorts: {null,v}); routes QueryIds, QueryIdsC on a re-used query, QueryWithCursorC over an index cursor, IterateIds")
	cases := c02Cases(thorough)
	rep.Count("query_texts", int64(len(cases)))
	fams := map[string][]c02Case{}
	for _, c := range cases {
		k := familyKey(c.fields)
		fams[k] = append(fams[k], c)
	}
	var keys []string
	for k := range fams {
		keys = append(keys, k)
	}
	keys = uniqSorted(keys)
	ids := []string{"e1", "e2", "e3", "e4"}
	var wg sync.WaitGroup
	type job struct {
		key   string
		part  int
		parts int
	}
	jobs := make(chan job)
	for wk := 0; wk < runtime.NumCPU(); wk++ {
		wg.Add(1)
		go func() {
			defer wg.Done()
			for j := range jobs {
				c02RunFamily(rep, j.key, ids, fams[j.key], j.part, j.parts, thorough)
			}
		}()
	}
	for _, k := range keys {
		parts := 1
		if strings.Count(k, "+") >= 1 || len(fams[k]) > 2000 {
			parts = 8
		}
		for p := 0; p < parts; p++ {
			jobs <- job{k, p, parts}
		}
	}
	close(jobs)
	wg.Wait()
	boundaryPass(rep, "C02", false, true, false)
	c02ChildStores(rep, thorough)
	c02Adopt(rep)
	c02EmptyAndReparsedQueries(rep)
	rep.Set("evaluations", rep.Get("evaluations"))
	rep.Set("distinct_nontrivial", int(rep.Get("compared_pairs")))
	return rep.Finish()
}

func c02RunFamily(rep *report.Report, key string, ids []string, cases []c02Case, part, parts int, thorough bool) {
	w := newQWorld()
	w.open()
	defer w.close()
	var fields []string
	if key != "" {
		fields = strings.Split(key, "+")
	}
	type pc struct {
		c c02Case
		q ast.Query
	}
	var parsed []pc
	for _, c := range cases {
		q, err, p := safeParse(w.people, c.text)
		if p != nil || err != nil {
			rep.Violation("C02|query-rejected|"+c.text, fmt.Sprintf("query %q rejected: err=%v panic=%v", c.text, err, p), map[string]interface{}{"query": c.text})
			continue
		}
		parsed = append(parsed, pc{c, q})
	}
	allProvider := w.people.IteratorMatchingAnyOf(w.rolesIdx, []string{"all"})
	// domains: one field -> 3 values; more fields -> 2 values each (null + one value)
	doms := map[string][]rm.Val{}
	for _, f := range fields {
		d := c02Domains[f]
		if len(fields) >= 2 {
			d = d[:2]
		}
		if len(fields) >= 3 {
			d = d[:2]
		}
		doms[f] = d
	}
	n := len(ids) * len(fields)
	profiles := len(fields) >= 3
	if profiles {
		// with three or more sort fields each entity takes one of three whole-row profiles (all null, all
		// first value, alternating), so rows that tie on EVERY sort field occur
		n = len(ids)
	}
	idx := make([]int, n)
	dsNo := 0
	for {
		if dsNo%parts == part && !rep.TooMany() {
			ds := newQDS()
			var lb strings.Builder
			for ei, id := range ids {
				e := &rm.Ent{Id: id, F: map[string]rm.Val{}, Sets: map[string][]string{"roles": {"all"}}, Fk: map[string]*string{}, Tags: map[string]rm.Val{}}
				fmt.Fprintf(&lb, "%s{", id)
				for fi, f := range fields {
					if profiles {
						switch idx[ei] {
						case 0:
							e.F[f] = rm.Null
						case 1:
							e.F[f] = c02Domains[f][1]
						default:
							e.F[f] = c02Domains[f][1+fi%2]
						}
					} else {
						e.F[f] = doms[f][idx[ei*len(fields)+fi]]
					}
					fmt.Fprintf(&lb, "%s=%s ", f, e.F[f])
				}
				lb.WriteString("} ")
				ds.Stores["people"].Ents[id] = e
			}
			label := lb.String()
			_ = w.db.Update(nil, func(ctx boltz.MutateContext) error {
				if err := w.materialise(ctx, ds); err != nil {
					rep.Violation("C02|materialise|"+label, err.Error(), nil)
					return errSkip
				}
				tx := ctx.Tx()
				for _, p := range parsed {
					c02Check(rep, w, tx, ds, p.c, p.q, label, allProvider, dsNo == 0)
				}
				return errSkip
			})
			// the same on committed pages, in a read transaction (quick: families of at most one sort field)
			if !thorough && len(fields) > 1 {
				goto next
			}
			if err := w.committed(ds, func(tx *bbolt.Tx) {
				for _, p := range parsed {
					c02Check(rep, w, tx, ds, p.c, p.q, label+"[committed] ", allProvider, false)
				}
			}); err != nil {
				rep.Violation("C02|materialise-committed|"+label, err.Error(), nil)
			}
		next:
		}
		dsNo++
		k := n - 1
		for k >= 0 {
			limit := 3
			if !profiles {
				limit = len(doms[fields[k%len(fields)]])
			}
			idx[k]++
			if idx[k] < limit {
				break
			}
			idx[k] = 0
			k--
		}
		if k < 0 {
			break
		}
	}
	if len(parsed) > 0 && part == 0 {
		rep.Sample(map[string]interface{}{"family": key, "datasets": dsNo, "query": parsed[len(parsed)/2].c.text})
	}
}

func c02Check(rep *report.Report, w *qWorld, tx *bbolt.Tx, ds *rm.DS, c c02Case, q ast.Query, label string, allProvider ast.SetCursorProvider, withText bool) {
	var matching []string
	for _, id := range ds.Stores["people"].Ids() {
		if c.pred == nil || ds.Eval("people", id, c.pred) == rm.True {
			matching = append(matching, id)
		}
	}
	skip, limit := c.page.ref()
	want, total := ds.SortPage("people", matching, c.sortBy, skip, limit)
	ws := strings.Join(want, ",")
	rep.Count("evaluations", 1)
	rep.Count("compared_pairs", 1)
	rep.Outcome(fmt.Sprintf("page-size-%d-of-%d", len(want), total))
	check := func(route string, got []string, count int64, err error, pan interface{}, withCount bool) {
		if pan != nil || err != nil {
			rep.Violation("C02|error|"+route+"|"+c.text, fmt.Sprintf("%s(%q) on %s: err=%v panic=%v", route, c.text, label, err, pan), map[string]interface{}{"query": c.text, "dataset": label})
			return
		}
		if strings.Join(got, ",") != ws {
			rep.Violation("C02|wrong-page|"+route+"|"+c.text, fmt.Sprintf("%s(%q) on %s = %v, reference says %v", route, c.text, label, got, want), map[string]interface{}{"query": c.text, "dataset": label, "got": got, "want": want})
			return
		}
		if withCount && count != total {
			rep.Violation("C02|wrong-count|"+route+"|"+c.text, fmt.Sprintf("%s(%q) on %s count = %d, reference says %d", route, c.text, label, count, total), map[string]interface{}{"query": c.text, "dataset": label})
		}
	}
	run := func(route string, f func() ([]string, int64, error), withCount bool) {
		var got []string
		var count int64
		var err error
		var pan interface{}
		func() {
			defer func() { pan = recover() }()
			got, count, err = f()
		}()
		check(route, got, count, err, pan, withCount)
	}
	run("QueryIdsC", func() ([]string, int64, error) { return w.people.QueryIdsC(tx, q) }, true)
	// the same parsed query again: paging defaults written back into it must not change the answer
	run("QueryIdsC-reused", func() ([]string, int64, error) { return w.people.QueryIdsC(tx, q) }, true)
	run("QueryWithCursorC", func() ([]string, int64, error) { return w.people.QueryWithCursorC(tx, allProvider, q) }, true)
	if withText {
		run("QueryIds", func() ([]string, int64, error) { return w.people.QueryIds(tx, c.text) }, true)
	}
	if len(c.sortBy) == 0 {
		run("IterateIds", func() ([]string, int64, error) { return drain(w.people.IterateIds(tx, q)), 0, nil }, false)
	}
}

// c02ChildStores: the same paging/sorting oracle through a parent store, a plain child store and an
// extended child store over mixed populations (parent-only rows must neither appear in a plain child
// store's page nor consume its skip/limit), on every state of a short kitchen-sink exploration.
func c02ChildStores(rep *report.Report, thorough bool) {
	k := newKitchen("c02 child stores", kFeat{})
	k.noReads = true
	depth := 2
	if thorough {
		depth = 3
	}
	brep := report.New("C02-base", "quick", "exploration")
	ex := &explore.Explorer{Sc: k, Cfg: explore.Config{Programs: explore.SingleOps(len(k.Ops())), MaxDepth: depth, KeepFiles: true}, Rep: brep}
	ex.Run()
	defer os.RemoveAll(ex.Dir)
	var pages []pageSpec
	for _, s := range []*int64{nil, i64p(-1), i64p(0), i64p(1), i64p(2), i64p(3)} {
		for _, l := range []pageSpec{{}, {none: true}, {limit: i64p(-1)}, {limit: i64p(0)}, {limit: i64p(1)}, {limit: i64p(2)}} {
			pages = append(pages, pageSpec{skip: s, limit: l.limit, none: l.none})
		}
	}
	sorts := []string{"", "sort by id desc", "sort by name", "sort by name desc"}
	var next int64 = -1
	var wg sync.WaitGroup
	for wk := 0; wk < runtime.NumCPU(); wk++ {
		wg.Add(1)
		go func() {
			defer wg.Done()
			wkk := newKitchen("c02 child stores", kFeat{})
			for {
				i := int(atomic.AddInt64(&next, 1))
				if i >= len(ex.States) || rep.TooMany() {
					return
				}
				st := ex.States[i]
				m := st.Model.(*kModel)
				db, err := boltz.Open(st.Path, "root")
				if err != nil {
					panic(err)
				}
				_ = db.View(func(tx *bbolt.Tx) error {
					for _, sv := range []struct {
						store *world.Store
						name  string
						has   func(p *kPerson) bool
					}{{wkk.people, "people", func(*kPerson) bool { return true }}, {wkk.mgr, "mgr(plain child)", func(p *kPerson) bool { return p.mgr }}, {wkk.prof, "prof(extended child)", func(*kPerson) bool { return true }}} {
						var ids []string
						for id, p := range m.people {
							if sv.has(p) {
								ids = append(ids, id)
							}
						}
						for _, so := range sorts {
							ordered := append([]string{}, ids...)
							sort.Slice(ordered, func(a, b int) bool {
								x, y := ordered[a], ordered[b]
								switch so {
								case "sort by id desc":
									return x > y
								case "sort by name":
									if m.people[x].name != m.people[y].name {
										return m.people[x].name < m.people[y].name
									}
								case "sort by name desc":
									if m.people[x].name != m.people[y].name {
										return m.people[x].name > m.people[y].name
									}
								}
								return x < y
							})
							for _, pg := range pages {
								parts := []string{"true"}
								if so != "" {
									parts = append(parts, so)
								}
								if pt := pg.text(); pt != "" {
									parts = append(parts, pt)
								}
								text := strings.Join(parts, " ")
								skip, limit := pg.ref()
								want := append([]string{}, ordered...)
								if skip > 0 {
									if skip >= int64(len(want)) {
										want = nil
									} else {
										want = want[skip:]
									}
								}
								if limit >= 0 && int64(len(want)) > limit {
									want = want[:limit]
								}
								ws := strings.Join(want, ",")
								rep.Count("evaluations", 1)
								rep.Count("compared_pairs", 1)
								rep.Count("child_store_pages", 1)
								label := fmt.Sprintf("state{%s} through %s", strings.Join(st.History, " -> "), sv.name)
								got, count, err := sv.store.QueryIds(tx, text)
								if err != nil {
									rep.Violation("C02|child-store|error|"+sv.name+"|"+text, fmt.Sprintf("QueryIds(%q) on %s: %v", text, label, err), map[string]interface{}{"query": text, "history": st.History})
									continue
								}
								if strings.Join(got, ",") != ws || int(count) != len(ordered) {
									rep.Violation("C02|child-store|wrong-page|QueryIds|"+sv.name+"|"+text, fmt.Sprintf("QueryIds(%q) on %s = %v count=%d, reference [%s] count=%d", text, label, got, count, ws, len(ordered)), map[string]interface{}{"query": text, "history": st.History})
								}
								if so == "" {
									q, perr := ast.Parse(sv.store, text)
									if perr != nil {
										continue
									}
									if it := strings.Join(drain(sv.store.IterateIds(tx, q)), ","); it != ws {
										rep.Violation("C02|child-store|wrong-page|IterateIds|"+sv.name+"|"+text, fmt.Sprintf("IterateIds(%q) on %s = [%s], reference [%s]", text, label, it, ws), map[string]interface{}{"query": text, "history": st.History})
									}
								}
							}
						}
					}
					return nil
				})
				_ = db.Close()
			}
		}()
	}
	wg.Wait()
}

// c02Adopt: a parsed query that is used, given another query's sort clause through AdoptSortFields, used again,
// given its own sort clause back and used a third time - each use must follow the sort clause it has at that
// moment (all assignments of one string field over {null,a,B} on 4 entities).
func c02Adopt(rep *report.Report) {
	w := newQWorld()
	w.open()
	defer w.close()
	sortsA := [][]rm.SortField{nil, {{Sym: "s"}}, {{Sym: "s", Desc: true}}, {{Sym: "id", Desc: true}}, {{Sym: "s"}, {Sym: "id", Desc: true}}}
	pages := []pageSpec{{}, {skip: i64p(1)}, {skip: i64p(1), limit: i64p(2)}}
	ids := []string{"e1", "e2", "e3", "e4"}
	dom := c02Domains["s"]
	type pq struct {
		sortA, sortB  []rm.SortField
		page          pageSpec
		text          string
		q, own, other ast.Query
	}
	var cases []*pq
	for _, a := range sortsA {
		for _, b := range sortsA {
			for _, pg := range pages {
				parts := []string{"true"}
				if st := sortText(a); st != "" {
					parts = append(parts, st)
				}
				if pt := pg.text(); pt != "" {
					parts = append(parts, pt)
				}
				text := strings.Join(parts, " ")
				otherText := strings.TrimSpace("true " + sortText(b))
				c := &pq{sortA: a, sortB: b, page: pg, text: text}
				var err error
				if c.q, err = ast.Parse(w.people, text); err != nil {
					rep.Violation("C02|adopt|parse|"+text, err.Error(), nil)
					continue
				}
				c.own, _ = ast.Parse(w.people, text)
				if c.other, err = ast.Parse(w.people, otherText); err != nil {
					rep.Violation("C02|adopt|parse|"+otherText, err.Error(), nil)
					continue
				}
				cases = append(cases, c)
			}
		}
	}
	idx := make([]int, len(ids))
	for !rep.TooMany() {
		ds := newQDS()
		var lb strings.Builder
		for ei, id := range ids {
			e := &rm.Ent{Id: id, F: map[string]rm.Val{"s": dom[idx[ei]]}, Sets: map[string][]string{}, Fk: map[string]*string{}, Tags: map[string]rm.Val{}}
			fmt.Fprintf(&lb, "%s{s=%s} ", id, e.F["s"])
			ds.Stores["people"].Ents[id] = e
		}
		label := lb.String()
		_ = w.db.Update(nil, func(ctx boltz.MutateContext) error {
			if err := w.materialise(ctx, ds); err != nil {
				rep.Violation("C02|adopt|materialise|"+label, err.Error(), nil)
				return errSkip
			}
			for _, c := range cases {
				skip, limit := c.page.ref()
				for step, st := range []struct {
					adopt ast.Query
					sort  []rm.SortField
					what  string
				}{{nil, c.sortA, "own sort clause"}, {c.other, c.sortB, "after AdoptSortFields(" + sortText(c.sortB) + ")"}, {c.own, c.sortA, "after adopting its own sort clause back"}} {
					if st.adopt != nil {
						if err := c.q.AdoptSortFields(st.adopt); err != nil {
							rep.Violation("C02|adopt|error|"+c.text, err.Error(), nil)
							break
						}
					}
					want, total := ds.SortPage("people", ids, st.sort, skip, limit)
					rep.Count("evaluations", 1)
					rep.Count("compared_pairs", 1)
					rep.Count("adopted_sort_uses", 1)
					got, count, err := w.people.QueryIdsC(ctx.Tx(), c.q)
					if err != nil || strings.Join(got, ",") != strings.Join(want, ",") || count != total {
						rep.Violation(fmt.Sprintf("C02|adopt|wrong-page|%s|use-%d|adopted=%s", c.text, step+1, sortText(c.sortB)), fmt.Sprintf("query %q (%s) on %s = %v count=%d err=%v, reference %v count=%d", c.text, st.what, label, got, count, err, want, total), map[string]interface{}{"query": c.text, "dataset": label})
						break
					}
				}
				// leave the query with its own sort clause for the next dataset
				_ = c.q.AdoptSortFields(c.own)
			}
			return errSkip
		})
		k := len(idx) - 1
		for k >= 0 {
			idx[k]++
			if idx[k] < len(dom) {
				break
			}
			idx[k] = 0
			k--
		}
		if k < 0 {
			break
		}
	}
}

// c02EmptyAndReparsedQueries: paging and sort set on one parsed query through the API belong to that query object
// alone. A query text parsed again - in particular the EMPTY filter text, and `true` - must give the full, id-ordered
// answer whatever was done to earlier parses of the same text.
func c02EmptyAndReparsedQueries(rep *report.Report) {
	w := newQWorld()
	w.open()
	defer w.close()
	ids := []string{"e1", "e2", "e3", "e4"}
	ds := newQDS()
	for i, id := range ids {
		ds.Stores["people"].Ents[id] = &rm.Ent{Id: id, F: map[string]rm.Val{"s": rm.Str(string(rune('d' - i)))}, Sets: map[string][]string{}, Fk: map[string]*string{}, Tags: map[string]rm.Val{}}
	}
	_ = w.db.Update(nil, func(ctx boltz.MutateContext) error {
		if err := w.materialise(ctx, ds); err != nil {
			rep.Violation("C02|reparsed|materialise", err.Error(), nil)
			return errSkip
		}
		tx := ctx.Tx()
		all := strings.Join(ids, ",")
		for _, text := range []string{"", "true", "limit none", "skip 0"} {
			for round := 0; round < 2; round++ {
				rep.Count("evaluations", 1)
				rep.Count("reparsed_query_checks", 1)
				q, err := ast.Parse(w.people, text)
				if err != nil {
					rep.Violation("C02|reparsed|parse|"+text, fmt.Sprintf("%q: %v", text, err), nil)
					break
				}
				// a fresh parse: the full answer
				got, count, err := w.people.QueryIdsC(tx, q)
				if err != nil || strings.Join(got, ",") != all || count != 4 {
					rep.Violation("C02|reparsed|fresh-parse|"+text, fmt.Sprintf("round %d: a fresh parse of %q returns %v count=%d err=%v, expected [%s] count=4", round, text, got, count, err, all), map[string]interface{}{"query": text, "round": round})
					break
				}
				// now page and sort THIS object through the API
				q.SetSkip(1)
				q.SetLimit(2)
				if other, err := ast.Parse(w.people, "true sort by s"); err == nil {
					if err := q.AdoptSortFields(other); err != nil {
						rep.Violation("C02|reparsed|adopt|"+text, err.Error(), nil)
					}
				}
				want := "e3,e2" // s = d, c, b, a for e1..e4: ascending by s is e4 e3 e2 e1; skip 1 limit 2
				got, count, err = w.people.QueryIdsC(tx, q)
				if err != nil || strings.Join(got, ",") != want || count != 4 {
					rep.Violation("C02|reparsed|paged-object|"+text, fmt.Sprintf("round %d: %q with SetSkip(1), SetLimit(2) and an adopted `sort by s` returns %v count=%d err=%v, expected [%s] count=4", round, text, got, count, err, want), map[string]interface{}{"query": text, "round": round})
				}
				// the text route and a cursor, afterwards
				got, count, err = w.people.QueryIds(tx, text)
				if err != nil || strings.Join(got, ",") != all || count != 4 {
					rep.Violation("C02|reparsed|text-after-paged-object|"+text, fmt.Sprintf("round %d: QueryIds(%q) after another parse of the same text was paged returns %v count=%d err=%v, expected [%s] count=4", round, text, got, count, err, all), map[string]interface{}{"query": text, "round": round})
					break
				}
				if q2, err := ast.Parse(w.people, text); err == nil {
					if it := strings.Join(drain(w.people.IterateIds(tx, q2)), ","); it != all {
						rep.Violation("C02|reparsed|cursor-after-paged-object|"+text, fmt.Sprintf("round %d: IterateIds over a fresh parse of %q gives [%s], expected [%s]", round, text, it, all), map[string]interface{}{"query": text, "round": round})
						break
					}
				}
			}
		}
		return errSkip
	})
}
