package checks

import (
	"fmt"
	"os"
	"sort"
	"strings"
	"verif/world"

	"github.com/openziti/storage/ast"
	"github.com/openziti/storage/boltz"
	"go.etcd.io/bbolt"
	"verif/explore"
	"verif/report"
)

// c15Views: which entities each store shows, for EVERY assignment of {absent, plain parent, plain-child data,
// extended-child data} to four ids (256 datasets: runs of one, two and three parent-only rows before, between and
// after child rows). Read through all three stores by draining and by re-positioning every cursor.
func c15Views(rep *report.Report, tier string) {
	dir := explore.TmpDir("c15views")
	defer os.RemoveAll(dir)
	c15KeyCollision(rep, dir)
	ids := []string{"#p1", "#p2", "#p3", "#p4"}
	names := []string{"A", "B", "C", "D"}
	kinds := []string{"absent", "plain", "mgr", "prof"}
	tr, nick := true, "n"
	n := 1
	for range ids {
		n *= len(kinds)
	}
	for code := 0; code < n; code++ {
		k := newKitchen("views", kFeat{})
		db, err := boltz.Open(fmt.Sprintf("%s/v%d.db", dir, code), "root")
		if err != nil {
			panic(err)
		}
		if err := k.InitDb(db); err != nil {
			panic(err)
		}
		assign := make([]string, len(ids))
		c := code
		for i := range ids {
			assign[i] = kinds[c%len(kinds)]
			c /= len(kinds)
		}
		label := fmt.Sprintf("%v", assign)
		var all, mgrs, profs []string
		err = db.Update(nil, func(ctx boltz.MutateContext) error {
			// created in reverse id order, so that nothing depends on insertion order
			for i := len(ids) - 1; i >= 0; i-- {
				var err error
				switch assign[i] {
				case "plain":
					err = k.people.Create(ctx, k.personRec(ids[i], names[i], []string{"r"}, nil, nil, nil))
				case "mgr":
					err = k.mgr.Create(ctx, k.personRec(ids[i], names[i], []string{"r"}, nil, &tr, nil))
				case "prof":
					err = k.prof.Create(ctx, k.personRec(ids[i], names[i], []string{"r"}, nil, nil, &nick))
				}
				if err != nil {
					return err
				}
			}
			return nil
		})
		if err != nil {
			panic(err)
		}
		for i, id := range ids {
			switch assign[i] {
			case "plain":
				all = append(all, id)
			case "mgr":
				all, mgrs = append(all, id), append(mgrs, id)
			case "prof":
				all, profs = append(all, id), append(profs, id)
			}
		}
		fail := func(kind, msg string) {
			rep.Violation("C15|views|"+kind+"|"+label, "entities "+label+": "+msg, map[string]interface{}{"assignment": assign})
		}
		_ = db.View(func(tx *bbolt.Tx) error {
			type view struct {
				name  string
				store interface {
					IterateValidIds(tx *bbolt.Tx, filter ast.BoolNode) ast.SeekableSetCursor
					IterateIds(tx *bbolt.Tx, filter ast.BoolNode) ast.SeekableSetCursor
					QueryIds(tx *bbolt.Tx, query string) ([]string, int64, error)
					IsEntityPresent(tx *bbolt.Tx, id string) bool
					IsChildStore() bool
				}
				valid, vis []string
			}
			for _, v := range []view{{"people", k.people, all, all}, {"mgr (plain child)", k.mgr, mgrs, mgrs}, {"prof (extended child)", k.prof, profs, all}} {
				rep.Count("evaluations", 1)
				for _, target := range append([]string{"", "#p0", "#p9"}, ids...) {
					for _, which := range []string{"IterateValidIds", "IterateIds"} {
						want := v.valid
						cur := v.store.IterateValidIds(tx, ast.BoolNodeTrue)
						if which == "IterateIds" {
							want = v.vis
							cur = v.store.IterateIds(tx, ast.BoolNodeTrue)
						}
						if target != "" {
							cur.Seek([]byte(target))
						}
						var rest []string
						for _, id := range want {
							if id >= target {
								rest = append(rest, id)
							}
						}
						if got := drain(cur); strings.Join(got, ",") != strings.Join(rest, ",") {
							fail("cursor", fmt.Sprintf("%s.%s after Seek(%q) = %v, expected %v", v.name, which, target, got, rest))
							return nil
						}
					}
				}
				// stepping: Next after every position (a cursor obtained, advanced once, then drained)
				cur := v.store.IterateValidIds(tx, ast.BoolNodeTrue)
				if cur.IsValid() {
					cur.Next()
					want := []string{}
					if len(v.valid) > 1 {
						want = v.valid[1:]
					}
					if got := drain(cur); strings.Join(got, ",") != strings.Join(want, ",") {
						fail("cursor", fmt.Sprintf("%s.IterateValidIds after one Next = %v, expected %v", v.name, got, want))
						return nil
					}
				}
				for _, q := range []string{"true", "true sort by name", "true sort by name desc", `anyOf(roles) = "r"`, "true skip 1 limit 2"} {
					want := append([]string{}, v.vis...)
					if strings.HasSuffix(q, "desc") {
						sort.Sort(sort.Reverse(sort.StringSlice(want)))
					}
					total := len(want)
					if strings.Contains(q, "skip 1") {
						if len(want) > 0 {
							want = want[1:]
						}
						if len(want) > 2 {
							want = want[:2]
						}
					}
					got, count, err := v.store.QueryIds(tx, q)
					if err != nil || strings.Join(got, ",") != strings.Join(want, ",") || int(count) != total {
						fail("query", fmt.Sprintf("%s.QueryIds(%q) = %v count=%d err=%v, expected %v count=%d", v.name, q, got, count, err, want, total))
						return nil
					}
				}
			}
			return nil
		})
		_ = db.Close()
		_ = os.Remove(fmt.Sprintf("%s/v%d.db", dir, code))
		rep.Count("view_datasets", 1)
	}
}

// c15KeyCollision: an extended child store whose own field is stored under a key the parent also uses (in the child's
// own bucket). Looking a parent-only entity up through the child store must not present the parent's value as
// the child's; an entity with child data shows both values, each from its own bucket.
func c15KeyCollision(rep *report.Report, dir string) {
	devices := world.NewStore(&world.Spec{EntityType: "devices", BasePath: []string{"root"}, Fields: []world.Field{{Name: "name", Kind: world.KString}}})
	devices.AddIdSymbol("id", ast.NodeTypeString)
	sensors := world.NewStore(&world.Spec{Parent: devices, ChildPath: []string{"ext", "sensor"}, Extended: true, Fields: []world.Field{
		{Name: "name", Kind: world.KString}, {Name: "probe", Key: "name", Kind: world.KStringP, Child: true}}})
	db, err := boltz.Open(dir+"/collision.db", "root")
	if err != nil {
		panic(err)
	}
	defer db.Close()
	if err := db.Update(nil, func(ctx boltz.MutateContext) error {
		if err := devices.Create(ctx, world.NewRec("devices", "d1").With("name", "P1")); err != nil {
			return err
		}
		return sensors.Create(ctx, world.NewRec("devices", "d2").With("name", "P2").With("probe", "C2"))
	}); err != nil {
		panic(err)
	}
	_ = db.View(func(tx *bbolt.Tx) error {
		rep.Count("evaluations", 1)
		for _, c := range []struct {
			id, name string
			probe    interface{}
		}{{"d1", "P1", nil}, {"d2", "P2", "C2"}} {
			for _, route := range []string{"FindById", "LoadById"} {
				var e *world.Rec
				var err error
				if route == "FindById" {
					e, _, err = sensors.FindById(tx, c.id)
				} else {
					e, err = sensors.LoadById(tx, c.id)
				}
				if err != nil || e == nil {
					rep.Violation("C15|key-collision|lookup|"+c.id, fmt.Sprintf("extended child store %s(%s): entity=%v err=%v", route, c.id, e, err), nil)
					continue
				}
				if e.F["name"] != c.name || e.F["probe"] != c.probe {
					rep.Violation("C15|key-collision|"+route+"|"+c.id, fmt.Sprintf("extended child store %s(%s): shared field name=%v (expected %q), child field stored under the same key in the child's bucket = %v (expected %v)", route, c.id, e.F["name"], c.name, e.F["probe"], c.probe), map[string]interface{}{"id": c.id, "route": route})
				}
			}
			if p, found, _ := devices.FindById(tx, c.id); !found || p.F["name"] != c.name {
				rep.Violation("C15|key-collision|parent|"+c.id, fmt.Sprintf("parent store FindById(%s) = %v", c.id, p), nil)
			}
		}
		return nil
	})
}
