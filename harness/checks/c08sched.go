package checks

import (
	"context"
	"fmt"
	"os"

	"github.com/openziti/storage/boltz"
	"verif/explore"
	"verif/report"
	"verif/vsched"
	"verif/vsync"
)

type c08TxKey struct{}

// c08TxCompleteSchedules: a transaction-complete listener registered while one transaction is running and another is
// waiting for the writer lock. Under every schedule (preemption-bounded) each committed transaction whose function
// began after the registration had returned must be reported to the listener exactly once, and no transaction more
// than once. Three threads: A (its function yields while it holds the writer lock), B (a second Db.Update), R (the
// registration).
func c08TxCompleteSchedules(rep *report.Report, thorough bool) {
	dir := explore.TmpDir("c08sched")
	defer os.RemoveAll(dir)
	base := dir + "/base.db"
	if db, err := boltz.Open(base, "root"); err != nil {
		panic(err)
	} else if err := db.Close(); err != nil {
		panic(err)
	}
	type state struct {
		db       *boltz.DbImpl
		stamp    int
		reg      int
		begin    map[string]int
		calls    map[string]int
		errs     []string
		earlyReg int
	}
	cur := &state{}
	bound := 2
	if thorough {
		bound = 3
	}
	ex := &vsched.Explorer{Bound: bound, MaxSteps: 4000, MaxExecs: 200000, ReplayEvery: 25}
	ex.Cleanup = func() { _ = cur.db.Close() }
	ex.KeyFn = func() string {
		return fmt.Sprint(cur.reg, cur.begin, cur.calls, cur.errs)
	}
	ex.Body = func() func() {
		p := dir + "/x.db"
		_ = os.Remove(p)
		if err := explore.CopyFile(base, p); err != nil {
			panic(err)
		}
		db, err := boltz.Open(p, "root")
		if err != nil {
			panic(err)
		}
		*cur = state{db: db, begin: map[string]int{}, calls: map[string]int{}}
		// a listener registered before anything starts: reported for every transaction
		db.AddTxCompleteListener(func(ctx boltz.MutateContext) {
			if name, _ := ctx.Context().Value(c08TxKey{}).(string); name != "" {
				cur.calls["early:"+name]++
			}
		})
		update := func(name string, yield bool) {
			ctx := boltz.NewMutateContext(context.WithValue(context.Background(), c08TxKey{}, name))
			if err := db.Update(ctx, func(ctx boltz.MutateContext) error {
				cur.stamp++
				cur.begin[name] = cur.stamp
				if yield {
					vsync.Yield(name + ":in-tx")
				}
				return nil
			}); err != nil {
				cur.errs = append(cur.errs, name+": "+err.Error())
			}
		}
		return func() {
			vsync.Go0(func() { update("A", true) })
			vsync.Go0(func() { update("B", false) })
			vsync.Go0(func() {
				vsync.Yield("R:before-registration")
				db.AddTxCompleteListener(func(ctx boltz.MutateContext) {
					if name, _ := ctx.Context().Value(c08TxKey{}).(string); name != "" {
						cur.calls[name]++
					}
				})
				cur.stamp++
				cur.reg = cur.stamp
			})
		}
	}
	ex.Check = func(x *vsched.Execution) {
		rep.Count("transitions", int64(x.Steps))
		defer func() { _ = cur.db.Close() }()
		replay := map[string]interface{}{"scenario": "tx-complete listener registered between two transactions", "choices": x.Choices(), "schedule": x.Schedule()}
		if x.Deadlock || len(x.Panics) > 0 || x.Hung != "" || x.Diverged != "" {
			rep.Violation("C08|tx-complete-schedules|abnormal", fmt.Sprintf("deadlock=%v panics=%v hung=%q diverged=%q", x.Deadlock, x.Panics, x.Hung, x.Diverged), replay)
			return
		}
		vsync.WaitIdle()
		if len(cur.errs) > 0 {
			rep.Violation("C08|tx-complete-schedules|update-failed", fmt.Sprint(cur.errs), replay)
			return
		}
		for _, name := range []string{"A", "B"} {
			if n := cur.calls["early:"+name]; n != 1 {
				rep.Violation("C08|tx-complete-schedules|early-listener|"+name, fmt.Sprintf("the listener registered before everything was called %d times for committed transaction %s", n, name), replay)
				return
			}
			n := cur.calls[name]
			if n > 1 {
				rep.Violation("C08|tx-complete-schedules|twice|"+name, fmt.Sprintf("transaction %s was reported %d times to one listener", name, n), replay)
				return
			}
			if cur.begin[name] > cur.reg && n != 1 {
				rep.Violation("C08|tx-complete-schedules|missed|"+name, fmt.Sprintf("the function of transaction %s began (stamp %d) after the listener's registration had returned (stamp %d), the transaction committed, and the listener was called %d times", name, cur.begin[name], cur.reg, n), replay)
				return
			}
			if cur.begin[name] > cur.reg {
				rep.Outcome("tx-began-after-registration:reported")
			} else {
				rep.Outcome(fmt.Sprintf("tx-began-before-registration:reported=%d", n))
			}
		}
	}
	ex.Explore()
	rep.Count("states", int64(ex.Executions))
	rep.Set("schedules_tx_complete_listener", ex.Executions)
	rep.Set("replay_determinism_checks_tx_complete", ex.Replays)
	if ex.Capped {
		rep.Capped("tx-complete schedules: execution cap hit")
	}
}
