package checks

import (
	"fmt"
	"sort"
	"strings"
	"time"

	"github.com/openziti/storage/ast"
	"github.com/openziti/storage/boltz"
	rm "verif/refmodel"
	"verif/report"
)

// ---------------------------------------------------------------------------------------------
// C12 — boolean connectives group as written: parentheses, precedence, case, spacing.

// boolSyms is a minimal ast.Symbols: every identifier is a bool symbol whose value is a bit of `bits`.
type boolSyms struct {
	names map[string]int
	bits  uint
}

func (b *boolSyms) GetSymbolType(name string) (ast.NodeType, bool) {
	_, ok := b.names[name]
	return ast.NodeTypeBool, ok
}
func (b *boolSyms) GetSetSymbolTypes(string) ast.SymbolTypes { return nil }
func (b *boolSyms) IsSet(name string) (bool, bool) {
	_, ok := b.names[name]
	return false, ok
}
func (b *boolSyms) EvalBool(name string) *bool {
	v := b.bits&(1<<uint(b.names[name])) != 0
	return &v
}
func (b *boolSyms) EvalString(string) *string          { return nil }
func (b *boolSyms) EvalInt64(string) *int64            { return nil }
func (b *boolSyms) EvalFloat64(string) *float64        { return nil }
func (b *boolSyms) EvalDatetime(string) *time.Time     { return nil }
func (b *boolSyms) IsNil(string) bool                  { return false }
func (b *boolSyms) OpenSetCursor(string) ast.SetCursor { return ast.NewEmptyCursor() }
func (b *boolSyms) OpenSetCursorForQuery(string, ast.Query) ast.SetCursor {
	return ast.NewEmptyCursor()
}

// bx is a boolean skeleton: leaf (atom index) or and/or/not.
type bx struct {
	op   byte // 'v' leaf, '&', '|', '!'
	atom int
	l, r *bx
}

func (e *bx) eval(bits uint) bool {
	switch e.op {
	case 'v':
		return bits&(1<<uint(e.atom)) != 0
	case '&':
		return e.l.eval(bits) && e.r.eval(bits)
	case '|':
		return e.l.eval(bits) || e.r.eval(bits)
	}
	return !e.l.eval(bits)
}

var atomNames = []string{"a", "b", "c", "d", "e"}

// minimal: only the parentheses the documented precedence requires (and over or, chains flat).
// A not-term is written `not (P)` and parenthesised again unless it is the whole query or the
// right-most operand (prefix-not binding strength is not fixed by the property).
func (e *bx) minimal(top, rightmost bool) string {
	switch e.op {
	case 'v':
		return atomNames[e.atom]
	case '!':
		s := "not (" + e.l.minimal(true, true) + ")"
		if top || rightmost {
			return s
		}
		return "(" + s + ")"
	case '&':
		l := e.l.minimal(false, false)
		if e.l.op == '|' {
			l = "(" + e.l.minimal(true, true) + ")"
		}
		r := e.r.minimal(false, rightmost)
		if e.r.op == '|' {
			r = "(" + e.r.minimal(true, true) + ")"
		}
		return l + " and " + r
	default:
		return e.l.minimal(false, false) + " or " + e.r.minimal(false, rightmost)
	}
}

func (e *bx) full() string {
	switch e.op {
	case 'v':
		return atomNames[e.atom]
	case '!':
		return "(not (" + e.l.full() + "))"
	case '&':
		return "(" + e.l.full() + " and " + e.r.full() + ")"
	default:
		return "(" + e.l.full() + " or " + e.r.full() + ")"
	}
}

func (e *bx) redundant() string {
	switch e.op {
	case 'v':
		return "((" + atomNames[e.atom] + "))"
	case '!':
		return "(( not ( (" + e.l.redundant() + ") ) ))"
	case '&':
		return "((" + e.l.redundant() + ") and (" + e.r.redundant() + "))"
	default:
		return "((" + e.l.redundant() + ") or (" + e.r.redundant() + "))"
	}
}

// defectTable evaluates text the way the documented-defect grammar groups it: inside one
// parenthesis level every binary connective takes the whole rest of the level as its right operand
// (x1 op1 (x2 op2 (x3 ...))), i.e. no precedence between and/or. Known finding C12.
func defectEval(tokens []string, pos *int, bits uint) bool {
	// primary
	var left bool
	t := tokens[*pos]
	switch {
	case t == "(":
		*pos++
		left = defectEval(tokens, pos, bits)
		*pos++ // ")"
	case t == "not":
		*pos++
		*pos++ // "("
		left = !defectEval(tokens, pos, bits)
		*pos++ // ")"
	default:
		for i, n := range atomNames {
			if n == t {
				left = bits&(1<<uint(i)) != 0
			}
		}
		*pos++
	}
	if *pos < len(tokens) && (tokens[*pos] == "and" || tokens[*pos] == "or") {
		op := tokens[*pos]
		*pos++
		right := defectEval(tokens, pos, bits)
		if op == "and" {
			return left && right
		}
		return left || right
	}
	return left
}

func tokenize(text string) []string {
	text = strings.NewReplacer("(", " ( ", ")", " ) ").Replace(text)
	return strings.Fields(strings.ToLower(text))
}

func genTrees(lo, hi int, maxNots int) []*bx {
	type res struct {
		t    *bx
		nots int
	}
	var gen func(lo, hi int) []res
	memo := map[[2]int][]res{}
	gen = func(lo, hi int) []res {
		if r, ok := memo[[2]int{lo, hi}]; ok {
			return r
		}
		var out []res
		if hi-lo == 1 {
			out = append(out, res{&bx{op: 'v', atom: lo}, 0})
		} else {
			for mid := lo + 1; mid < hi; mid++ {
				for _, l := range gen(lo, mid) {
					for _, r := range gen(mid, hi) {
						if l.nots+r.nots > maxNots {
							continue
						}
						out = append(out, res{&bx{op: '&', l: l.t, r: r.t}, l.nots + r.nots}, res{&bx{op: '|', l: l.t, r: r.t}, l.nots + r.nots})
					}
				}
			}
		}
		// optional negation of each produced node
		n := len(out)
		for i := 0; i < n; i++ {
			if out[i].nots < maxNots && out[i].t.op != '!' {
				out = append(out, res{&bx{op: '!', l: out[i].t}, out[i].nots + 1})
			}
		}
		memo[[2]int{lo, hi}] = out
		return out
	}
	var trees []*bx
	for _, r := range gen(lo, hi) {
		trees = append(trees, r.t)
	}
	return trees
}

func truthTable(q ast.Query, syms *boolSyms, n int) (uint32, interface{}) {
	var table uint32
	var pan interface{}
	func() {
		defer func() { pan = recover() }()
		for bits := uint(0); bits < 1<<uint(n); bits++ {
			syms.bits = bits
			if q.EvalBool(syms) {
				table |= 1 << bits
			}
		}
	}()
	return table, pan
}

func C12(tier string) int {
	rep := report.New("C12", tier, "exploration")
	thorough := tier != "quick"
	rep.Assume("a prefix `not` is always written `not (P)` and parenthesised unless whole query/right-most operand: the property does not fix the binding strength of bare prefix not")
	rep.Set("rule", "ALL boolean skeletons over up to N atoms (and/or trees of every shape, up to 2 negated sub-terms) printed with minimal, full and redundant parentheses x all 2^n assignments; plus keyword-case and whitespace re-spellings; oracle = truth table of the skeleton")
	maxAtoms := 4
	if thorough {
		maxAtoms = 5
	}
	syms := &boolSyms{names: map[string]int{}}
	for i, n := range atomNames {
		syms.names[n] = i
	}
	parse := func(text string) (ast.Query, error, interface{}) {
		var q ast.Query
		var err error
		var pan interface{}
		func() {
			defer func() { pan = recover() }()
			q, err = ast.Parse(syms, text)
		}()
		return q, err, pan
	}
	seenText := map[string]bool{}
	for n := 1; n <= maxAtoms; n++ {
		maxNots := 2
		if n == 5 {
			maxNots = 1
		}
		trees := genTrees(0, n, maxNots)
		rep.Count("skeletons", int64(len(trees)))
		for ti, t := range trees {
			var want uint32
			for bits := uint(0); bits < 1<<uint(n); bits++ {
				if t.eval(bits) {
					want |= 1 << bits
				}
			}
			for _, style := range []struct{ name, text string }{{"minimal", t.minimal(true, true)}, {"full", t.full()}, {"redundant", t.redundant()}} {
				if seenText[style.text] {
					continue
				}
				seenText[style.text] = true
				rep.Count("evaluations", 1)
				rep.Count("compared_pairs", 1)
				q, err, pan := parse(style.text)
				if pan != nil || err != nil {
					rep.Violation("C12|rejected|"+style.text, fmt.Sprintf("%q rejected: err=%v panic=%v", style.text, err, pan), map[string]interface{}{"query": style.text})
					continue
				}
				got, pan := truthTable(q, syms, n)
				if pan != nil {
					rep.Violation("C12|panic|"+style.text, fmt.Sprintf("evaluating %q panicked: %v", style.text, pan), map[string]interface{}{"query": style.text})
					continue
				}
				if got == want {
					rep.Outcome("agrees-" + style.name)
					continue
				}
				// classify: is it exactly the documented-defect grammar (no and/or precedence)?
				var defect uint32
				toks := tokenize(style.text)
				for bits := uint(0); bits < 1<<uint(n); bits++ {
					pos := 0
					if defectEval(toks, &pos, bits) {
						defect |= 1 << bits
					}
				}
				if got == defect && style.name == "minimal" {
					rep.Outcome("known-defect-precedence")
					rep.Violation("C12|and-or-precedence-right-operand-takes-rest", fmt.Sprintf("%q: truth table %0*b, documented precedence gives %0*b", style.text, 1<<uint(n), got, 1<<uint(n), want), nil)
					continue
				}
				rep.Violation("C12|wrong-grouping|"+style.name+"|"+style.text, fmt.Sprintf("%q (%s parentheses): truth table %0*b, expected %0*b", style.text, style.name, 1<<uint(n), got, 1<<uint(n), want), map[string]interface{}{"query": style.text, "style": style.name})
			}
			if ti%500 == 0 {
				rep.Sample(map[string]interface{}{"atoms": n, "minimal": t.minimal(true, true), "full": t.full()})
			}
		}
	}
	// ---- re-spellings: case, whitespace, redundant outer parentheses must not change the result.
	// Use fully parenthesised bases so the (known) precedence defect cannot interfere.
	bases := []string{
		`(a and b) or (not (c))`,
		`not ((a or b) and c)`,
		`((a and b) and c) or d`,
		`a and (b or (c and d))`,
	}
	respell := func(s string) []string {
		var out []string
		out = append(out, strings.ToUpper(s))
		out = append(out, strings.NewReplacer("and", "AND", "or", "Or", "not", "nOt").Replace(s))
		out = append(out, strings.NewReplacer("and", "aNd", "or", "oR", "not", "NOT").Replace(s))
		out = append(out, strings.ReplaceAll(s, " ", "  "))
		out = append(out, strings.ReplaceAll(s, " ", "\t"))
		out = append(out, strings.ReplaceAll(s, " ", " \n "))
		out = append(out, "  "+s+"  ")
		out = append(out, strings.NewReplacer("(", "( ", ")", " )").Replace(s))
		out = append(out, "("+s+")", "(("+s+"))", "( ( "+s+" ) )")
		return out
	}
	upperSyms := &boolSyms{names: map[string]int{}}
	for i, n := range atomNames {
		upperSyms.names[n] = i
		upperSyms.names[strings.ToUpper(n)] = i
	}
	for _, base := range bases {
		bq, err, pan := func() (ast.Query, error, interface{}) {
			var q ast.Query
			var err error
			var pan interface{}
			func() {
				defer func() { pan = recover() }()
				q, err = ast.Parse(upperSyms, base)
			}()
			return q, err, pan
		}()
		if err != nil || pan != nil {
			rep.Violation("C12|rejected|"+base, fmt.Sprintf("%q rejected: %v %v", base, err, pan), nil)
			continue
		}
		want, _ := truthTable(bq, upperSyms, 4)
		for _, alt := range respell(base) {
			rep.Count("evaluations", 1)
			rep.Count("compared_pairs", 1)
			rep.Count("respellings", 1)
			var q ast.Query
			var err error
			var pan interface{}
			func() {
				defer func() { pan = recover() }()
				q, err = ast.Parse(upperSyms, alt)
			}()
			if err != nil || pan != nil {
				rep.Violation("C12|respelling-rejected|"+alt, fmt.Sprintf("re-spelling %q of %q rejected: err=%v panic=%v", alt, base, err, pan), map[string]interface{}{"query": alt})
				continue
			}
			got, pan := truthTable(q, upperSyms, 4)
			if pan != nil || got != want {
				rep.Violation("C12|respelling-changes-result|"+alt, fmt.Sprintf("re-spelling %q of %q: truth table %016b, expected %016b (panic=%v)", alt, base, got, want, pan), map[string]interface{}{"query": alt})
			} else {
				rep.Outcome("respelling-agrees")
			}
		}
	}
	// word operators: case-insensitive, and the negated forms must keep their negation in every spelling
	c12WordOps(rep)
	rep.Set("evaluations", rep.Get("evaluations"))
	rep.Set("distinct_nontrivial", int(rep.Get("compared_pairs")))
	return rep.Finish()
}

// c12WordOps: keyword/word-operator case and whitespace variants over a small real dataset.
func c12WordOps(rep *report.Report) {
	w := newQWorld()
	w.open()
	defer w.close()
	type variant struct{ base, alt string }
	bases := []string{
		`s contains "a"`, `s not contains "a"`, `s icontains "A"`, `s not icontains "a"`,
		`i in [4, 6]`, `i not in [4, 6]`, `i between 4 and 5`, `i not between 4 and 5`,
		`b = true`, `b != false`, `s = null`, `s != null`,
		`anyOf(roles) = "a"`, `allOf(roles) != "x"`, `isEmpty(roles)`, `count(roles) = 1`,
		`count(from reports where s = "a") = 0`,
		`true sort by s desc, i asc skip 1 limit none`,
		`i > 3 and not (b) or s = "a"`,
	}
	kw := []string{"not icontains", "not contains", "icontains", "contains", "not in", "not between", "between", " in ", " and ", " or ", "not (", "true", "false", "null",
		"anyOf", "allOf", "isEmpty", "count", "from", "where", "sort by", "desc", "asc", "skip", "limit", "none"}
	mix := func(s string) string {
		out := []byte(s)
		for i := range out {
			if i%2 == 0 && out[i] >= 'a' && out[i] <= 'z' {
				out[i] -= 32
			}
		}
		return string(out)
	}
	var variants []variant
	for _, b := range bases {
		up, mx := b, b
		for _, k := range kw {
			up = strings.ReplaceAll(up, k, strings.ToUpper(k))
			mx = strings.ReplaceAll(mx, k, mix(k))
		}
		// string literals and symbols keep their case: restore the quoted parts / identifiers
		variants = append(variants, variant{b, up}, variant{b, mx})
		// whitespace where the grammar allows several blanks
		ws := b
		for _, k := range []string{" contains ", " icontains ", " between ", " and ", " or ", " sort by ", " skip ", " limit ", " where ", "from "} {
			ws = strings.ReplaceAll(ws, k, strings.ReplaceAll(k, " ", "  "))
		}
		ws = strings.NewReplacer("not contains", "not   contains", "not icontains", "not \t icontains", "not between", "not\n between", "(", "( ", ")", " )", "[", "[ ", "]", " ]", ",", " , ").Replace(ws)
		variants = append(variants, variant{b, ws})
		// every blank of the base (none is inside a string literal) replaced by each other whitespace
		// character - one blank at a time and all at once - and doubled where the grammar has WS+
		// (`not in` is a single token with exactly one whitespace character inside)
		for _, alt := range []string{"\t", "\n", "\r"} {
			variants = append(variants, variant{b, strings.ReplaceAll(b, " ", alt)})
			for i := 0; i < len(b); i++ {
				if b[i] == ' ' {
					variants = append(variants, variant{b, b[:i] + alt + b[i+1:]})
				}
			}
		}
		for i := 0; i < len(b); i++ {
			if b[i] == ' ' && !(i >= 3 && strings.EqualFold(b[i-3:i], "not") && strings.HasPrefix(b[i+1:], "in ")) {
				variants = append(variants, variant{b, b[:i] + " \t" + b[i+1:]}, variant{b, b[:i] + "\n " + b[i+1:]})
			}
		}
		// whitespace around the whole query and just inside parentheses / brackets
		variants = append(variants, variant{b, " " + b}, variant{b, b + " "}, variant{b, "\t\n" + b + "\r\n"},
			variant{b, strings.NewReplacer("(", "(\t", ")", "\n)", "[", "[\n", "]", "\t]", ",", "\t,\n").Replace(b)})
		// comparison operators allow no blanks at all
		variants = append(variants, variant{b, strings.NewReplacer(" = ", "=", " != ", "!=", " > ", ">").Replace(b)})
	}
	// other spellings of the same literal, and parentheses nested deeper than any skeleton above
	for _, alt := range []string{"datetime(2020-09-09T10:39:09+01:30)", "datetime(2020-09-09T09:09:09.000000000Z)", "datetime( 2020-09-09T09:09:09Z )", "datetime(2020-09-09T09:09:09-00:00)", "datetime(2020-09-08T23:09:09-10:00)"} {
		variants = append(variants, variant{`t < datetime(2020-09-09T09:09:09Z)`, `t < ` + alt}, variant{`t >= datetime(2020-09-09T09:09:09Z) or i = 5`, `t >= ` + alt + ` or i = 5`})
	}
	for _, alt := range []string{"4.0", "4e0", "0.4E1", "40e-1", "4.000"} {
		variants = append(variants, variant{`i > 4`, `i > ` + alt}, variant{`i <= 4`, `i <= ` + alt})
	}
	for _, alt := range []string{"45e-1", "4.50", "0.45e1", "4.5E0"} {
		variants = append(variants, variant{`f >= 4.5`, `f >= ` + alt}, variant{`f = 4.5`, `f = ` + alt})
	}
	variants = append(variants,
		variant{`i > 3 and not (b) or s = "a"`, `((((((((i > 3 and not (b) or s = "a"))))))))`},
		// (the operand of a prefix `not` is kept last: how far an unparenthesised `not` reaches is not fixed by the property)
		variant{`s = "a" or i > 3 and not (b)`, `(((((((((s = "a"))))))))) or (((((((i > 3))))))) and ((((((not ((((b))))))))))`},
		variant{`isEmpty(roles) or count(roles) = 1`, `((((((isEmpty(roles))))))) or ((((((count(roles) = 1))))))`},
	)
	_ = w.db.Update(nil, func(ctx boltz.MutateContext) error {
		ds := newQDS()
		mk := func(id string) *rm.Ent {
			e := &rm.Ent{Id: id, F: map[string]rm.Val{}, Sets: map[string][]string{}, Fk: map[string]*string{}, Tags: map[string]rm.Val{}}
			ds.Stores["people"].Ents[id] = e
			return e
		}
		e1, e2, _ := mk("e1"), mk("e2"), mk("e3")
		e1.F["s"], e1.F["i"], e1.F["b"] = rm.Str("a"), rm.Int(4), rm.Bool(true)
		e1.F["t"], e1.F["f"] = rm.Time(qT0), rm.Flt(4.5)
		e2.F["t"], e2.F["f"] = rm.Time(qT1), rm.Flt(5)
		e1.Sets["roles"] = []string{"a"}
		e2.F["s"], e2.F["i"], e2.F["b"] = rm.Str("B"), rm.Int(5), rm.Bool(false)
		boss := "e1"
		e2.Fk["boss"] = &boss
		ds.Stores["people"].Ents["e3"].Sets["roles"] = []string{"x"}
		if err := w.materialise(ctx, ds); err != nil {
			rep.Violation("C12|materialise", err.Error(), nil)
			return errSkip
		}
		// `not (P)` is the negation of P for every kind of atom: the two answers partition the entities
		all, _, _ := w.people.QueryIds(ctx.Tx(), "true")
		negBases := append([]string{}, bases...)
		negBases = append(negBases, `anyOf(roles) != "a"`, `allOf(roles) = "a"`, `anyOf(roles) != "x"`, `allOf(roles) != "a"`, `anyOf(reports.s) != "B"`, `allOf(reports.s) != "B"`,
			`anyOf(roles) in ["a", "x"]`, `anyOf(roles) contains "a"`, `allOf(roles) contains "x"`, `not isEmpty(roles)`, `boss.s = "a"`, `boss = null`, `tags.k = "a"`,
			`isEmpty(from reports where s = "B")`, `count(from reports where true) > 0`, `i > 3 and not (b)`, `not (s = "a") or b = true`)
		for _, b := range negBases {
			if strings.Contains(b, "sort by") || strings.Contains(b, " skip ") || strings.Contains(b, " limit ") {
				continue
			}
			rep.Count("evaluations", 1)
			rep.Count("compared_pairs", 1)
			rep.Count("negations", 1)
			pos, _, err1 := w.people.QueryIds(ctx.Tx(), b)
			neg, _, err2 := w.people.QueryIds(ctx.Tx(), "not ("+b+")")
			neg2, _, err3 := w.people.QueryIds(ctx.Tx(), "NOT  ( ( "+b+" ) )")
			if err1 != nil || err2 != nil || err3 != nil {
				rep.Violation("C12|negation-rejected|"+b, fmt.Sprintf("%q / its negation rejected: %v / %v / %v", b, err1, err2, err3), map[string]interface{}{"query": b})
				continue
			}
			union := append(append([]string{}, pos...), neg...)
			sort.Strings(union)
			if strings.Join(union, ",") != strings.Join(all, ",") || strings.Join(neg, ",") != strings.Join(neg2, ",") {
				rep.Violation("C12|not-is-not-the-negation|"+b, fmt.Sprintf("%q returns %v, not (%s) returns %v (other spelling: %v); together they must be exactly %v", b, pos, b, neg, neg2, all), map[string]interface{}{"query": b})
			} else {
				rep.Outcome("negation-is-complement")
			}
		}
		for _, v := range variants {
			if v.alt == v.base {
				continue
			}
			rep.Count("evaluations", 1)
			rep.Count("compared_pairs", 1)
			rep.Count("respellings", 1)
			bIds, bCount, bErr := w.people.QueryIds(ctx.Tx(), v.base)
			if bErr != nil {
				rep.Violation("C12|base-rejected|"+v.base, fmt.Sprintf("%q rejected: %v", v.base, bErr), nil)
				continue
			}
			var aIds []string
			var aCount int64
			var aErr error
			var pan interface{}
			func() {
				defer func() { pan = recover() }()
				aIds, aCount, aErr = w.people.QueryIds(ctx.Tx(), v.alt)
			}()
			if pan != nil || aErr != nil {
				rep.Violation("C12|respelling-rejected|"+v.alt, fmt.Sprintf("re-spelling %q of %q rejected: err=%v panic=%v", v.alt, v.base, aErr, pan), map[string]interface{}{"query": v.alt})
				continue
			}
			if strings.Join(aIds, ",") != strings.Join(bIds, ",") || aCount != bCount {
				rep.Violation("C12|respelling-changes-result|"+v.alt, fmt.Sprintf("%q returns %v, its re-spelling %q returns %v", v.base, bIds, v.alt, aIds), map[string]interface{}{"query": v.alt, "base": v.base})
			} else {
				rep.Outcome("word-op-respelling-agrees")
			}
		}
		return errSkip
	})
}
