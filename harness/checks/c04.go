package checks

import (
	"fmt"
	"os"
	"os/exec"
	"runtime/debug"
	"sort"
	"strings"

	"github.com/openziti/foundation/v2/errorz"
	"github.com/openziti/storage/ast"
	"github.com/openziti/storage/boltz"
	"go.etcd.io/bbolt"
	"verif/dump"
	"verif/explore"
	"verif/report"
	"verif/world"
)

// ---------------------------------------------------------------------------------------------
// C04 — foreign keys: targets exist, back-references exact, delete restricts or cascades.

type fkWiring int

const (
	fkIdxNullable fkWiring = iota
	fkIdxNonNull
	fkIdxCascade
	fkcNoneNullable
	fkcNoneNonNull
	fkcCascadeNullable
	fkcCascadeNonNull
	fkSelfIdxNullable
	fkSelfCascade
	fkSelfNone
	fkChildTarget
	fkIdxExtChildTarget
	fkSelfIdxCascade
)

var fkWiringNames = map[fkWiring]string{
	fkIdxNullable:       "fk-index nullable (restrict)",
	fkIdxNonNull:        "fk-index non-null (restrict)",
	fkIdxCascade:        "fk-index cascade-delete",
	fkcNoneNullable:     "fk-constraint nullable cascade-none (restrict)",
	fkcNoneNonNull:      "fk-constraint non-null cascade-none (restrict)",
	fkcCascadeNullable:  "fk-constraint nullable cascade-delete",
	fkcCascadeNonNull:   "fk-constraint non-null cascade-delete",
	fkSelfIdxNullable:   "self-referential fk-index nullable (restrict)",
	fkSelfCascade:       "self-referential fk-constraint cascade-delete",
	fkSelfNone:          "self-referential fk-constraint cascade-none (restrict)",
	fkChildTarget:       "fk-constraint (restrict) whose target is a child store of the referring store",
	fkIdxExtChildTarget: "fk-index nullable (restrict) whose target is an EXTENDED child store of the referring store",
	fkSelfIdxCascade:    "self-referential fk-index cascade-delete",
}

func (w fkWiring) hasIndex() bool {
	return w == fkIdxNullable || w == fkIdxNonNull || w == fkIdxCascade || w == fkSelfIdxNullable || w == fkIdxExtChildTarget || w == fkSelfIdxCascade
}
func (w fkWiring) nullable() bool {
	return w == fkIdxNullable || w == fkcNoneNullable || w == fkcCascadeNullable || w == fkSelfIdxNullable || w == fkSelfCascade || w == fkSelfNone || w == fkChildTarget || w == fkIdxExtChildTarget
}
func (w fkWiring) cascade() bool {
	return w == fkIdxCascade || w == fkcCascadeNullable || w == fkcCascadeNonNull || w == fkSelfCascade || w == fkSelfIdxCascade
}
func (w fkWiring) self() bool {
	return w == fkSelfIdxNullable || w == fkSelfCascade || w == fkSelfNone || w == fkSelfIdxCascade
}

// childTarget: the referenced store is a plain child store of the referring store - a target exists only if the
// entity has child data there (an entity of the parent store alone is not a valid target, not even for itself).
func (w fkWiring) childTarget() bool { return w == fkChildTarget || w == fkIdxExtChildTarget }

type fkModel struct {
	sc      *fkScenario
	special map[string]bool // childTarget wiring: widgets that have data in the child store
	owners  map[string]bool
	widgets map[string]*string // referrer id -> target (nil = null)
}

func (m *fkModel) Clone() explore.Model {
	n := &fkModel{sc: m.sc, owners: map[string]bool{}, widgets: map[string]*string{}, special: map[string]bool{}}
	for k := range m.special {
		n.special[k] = true
	}
	for k := range m.owners {
		n.owners[k] = true
	}
	for k, v := range m.widgets {
		n.widgets[k] = v
	}
	return n
}

func (m *fkModel) targetExists(id string) bool {
	if m.sc.w.childTarget() {
		_, ok := m.widgets[id]
		return ok && m.special[id]
	}
	if m.sc.w.self() {
		_, ok := m.widgets[id]
		return ok
	}
	return m.owners[id]
}

func (m *fkModel) Render() *dump.Tree {
	t := dump.NewTree()
	tgt := "owners"
	if m.sc.w.self() {
		tgt = "widgets"
	}
	for o := range m.owners {
		t.Ensure("root", "owners", o).Values["label"] = world.EncString("L")
	}
	for w, o := range m.widgets {
		b := t.Ensure("root", "widgets", w)
		b.Values["label"] = world.EncString("L")
		if m.special[w] {
			t.Ensure("root", "widgets", w, "special").Values["grade"] = world.EncInt64(7)
		}
		if o == nil {
			b.Values["owner"] = world.EncNil()
		} else {
			b.Values["owner"] = world.EncString(*o)
			if m.sc.w == fkIdxExtChildTarget {
				t.Ensure("root", "widgets", *o, "special", "widgets").Values[world.TypedKey(w)] = []byte{}
			} else if m.sc.w.hasIndex() {
				t.Ensure("root", tgt, *o, "widgets").Values[world.TypedKey(w)] = []byte{}
			}
		}
	}
	return t
}

type fkScenario struct {
	w        fkWiring
	label    string
	owners   *world.Store
	widgets  *world.Store
	special  *world.Store // childTarget wiring: plain child store of widgets
	ownerIds []string
	widgetId []string
	missing  string
	ops      []explore.Op
	// cycleCrash: the cascade over a reference cycle was observed (in a child process) to recurse
	// without bound; deletes inside a cycle are then not executed in-process.
	cycleCrash bool
}

func newFkScenario(w fkWiring, ownerIds, widgetIds []string, label string) *fkScenario {
	sc := &fkScenario{w: w, ownerIds: ownerIds, widgetId: widgetIds, missing: "zz-missing", label: label}
	widgetSpec := &world.Spec{EntityType: "widgets", BasePath: []string{"root"}, Fields: []world.Field{
		{Name: "label", Kind: world.KString}, {Name: "owner", Kind: world.KStringP}}}
	sc.widgets = world.NewStore(widgetSpec)
	var target *world.Store
	if w.childTarget() {
		sc.special = world.NewStore(&world.Spec{Parent: sc.widgets, ChildPath: []string{"special"}, Extended: w == fkIdxExtChildTarget, Fields: []world.Field{
			{Name: "label", Kind: world.KString}, {Name: "owner", Kind: world.KStringP}, {Name: "grade", Kind: world.KInt64P, Child: true}}})
		target = sc.special
		sc.ownerIds = nil
	} else if w.self() {
		target = sc.widgets
		sc.ownerIds = nil
	} else {
		sc.owners = world.NewStore(&world.Spec{EntityType: "owners", BasePath: []string{"root"}, Fields: []world.Field{{Name: "label", Kind: world.KString}}})
		sc.owners.AddScalarSymbols()
		target = sc.owners
	}
	sc.widgets.AddIdSymbol("id", ast.NodeTypeString)
	sc.widgets.AddSymbol("label", ast.NodeTypeString)
	ownerSym := sc.widgets.AddFkSymbolWithKey("ownedBy", "owner", target) // the symbol name differs from the stored key
	backRef := target.AddFkSetSymbol("widgets", sc.widgets)
	switch w {
	case fkIdxNullable, fkSelfIdxNullable, fkIdxExtChildTarget:
		sc.widgets.AddNullableFkIndex(ownerSym, backRef)
	case fkIdxNonNull:
		sc.widgets.AddFkIndex(ownerSym, backRef)
	case fkIdxCascade, fkSelfIdxCascade:
		sc.widgets.AddFkIndexCascadeDelete(ownerSym, backRef)
	case fkcNoneNullable, fkSelfNone, fkChildTarget:
		sc.widgets.AddFkConstraint(ownerSym, true, boltz.CascadeNone)
	case fkcNoneNonNull:
		sc.widgets.AddFkConstraint(ownerSym, false, boltz.CascadeNone)
	case fkcCascadeNullable, fkSelfCascade:
		sc.widgets.AddFkConstraint(ownerSym, true, boltz.CascadeDelete)
	case fkcCascadeNonNull:
		sc.widgets.AddFkConstraint(ownerSym, false, boltz.CascadeDelete)
	}
	sc.buildOps()
	return sc
}

func (sc *fkScenario) Name() string {
	return "S_fk[" + fkWiringNames[sc.w] + "; " + sc.label + "]"
}

func (sc *fkScenario) InitDb(db *boltz.DbImpl) error {
	return db.Update(nil, func(ctx boltz.MutateContext) error {
		h := &errorz.ErrorHolderImpl{}
		sc.widgets.InitializeIndexes(ctx.Tx(), h)
		if sc.owners != nil {
			sc.owners.InitializeIndexes(ctx.Tx(), h)
		}
		if sc.special != nil {
			sc.special.InitializeIndexes(ctx.Tx(), h)
		}
		return h.GetError()
	})
}

func (sc *fkScenario) NewModel() explore.Model {
	return &fkModel{sc: sc, owners: map[string]bool{}, widgets: map[string]*string{}, special: map[string]bool{}}
}
func (sc *fkScenario) Ops() []explore.Op                   { return sc.ops }
func (sc *fkScenario) Context(_ []int) boltz.MutateContext { return explore.OrdinaryContext() }
func (sc *fkScenario) Classify(err error) string {
	if err == errSkip {
		return "skip"
	}
	return classifyCommon(err)
}
func (sc *fkScenario) Normalize(t *dump.Tree) *dump.Tree {
	return t.PruneEmpty(func([]string) bool { return false })
}

func (sc *fkScenario) widgetRec(id string, owner *string) *world.Rec {
	r := world.NewRec("widgets", id).With("label", "L")
	if owner == nil {
		r.With("owner", nil)
	} else {
		r.With("owner", *owner)
	}
	return r
}

// checkRef: acceptable error classes for setting the reference of referrer id to owner (nil=null).
func (m *fkModel) checkRef(self string, owner *string) []string {
	if owner == nil || *owner == "" {
		if m.sc.w.nullable() {
			return nil
		}
		return []string{"empty"}
	}
	if *owner == self && m.sc.w.self() {
		// self reference: target is the entity being written, which exists at validation time
		return nil
	}
	if *owner == self && m.sc.w.childTarget() && !m.special[self] {
		return []string{"notfound"} // an entity of the parent store alone is no target, not even for itself
	}
	if !m.targetExists(*owner) {
		return []string{"notfound"}
	}
	return nil
}

// cascadeDelete removes target id and (transitively, for the self-referential wiring) its referrers.
func (m *fkModel) cascadeDelete(id string) {
	if m.sc.w.self() {
		if _, ok := m.widgets[id]; !ok {
			return
		}
		delete(m.widgets, id)
		for w, o := range m.widgets {
			if o != nil && *o == id {
				m.cascadeDelete(w)
			}
		}
		return
	}
	delete(m.owners, id)
	for w, o := range m.widgets {
		if o != nil && *o == id {
			delete(m.widgets, w)
		}
	}
}

func (m *fkModel) otherReferrers(id string) []string {
	var out []string
	for _, r := range m.referrers(id) {
		if r != id {
			out = append(out, r)
		}
	}
	return out
}

func (m *fkModel) referrers(id string) []string {
	var out []string
	for w, o := range m.widgets {
		if o != nil && *o == id {
			out = append(out, w)
		}
	}
	sort.Strings(out)
	return out
}

// inCycle reports whether deleting id under cascade walks into a reference cycle.
func (m *fkModel) inCycle(id string) bool {
	seen := map[string]bool{}
	var walk func(x string) bool
	walk = func(x string) bool {
		if seen[x] {
			return true
		}
		seen[x] = true
		for _, r := range m.referrers(x) {
			if walk(r) {
				return true
			}
		}
		delete(seen, x)
		return false
	}
	return walk(id)
}

func (sc *fkScenario) buildOps() {
	strp := func(s string) *string { return &s }
	// extended child store as target: whether an entity that exists in the parent store only counts as a target is
	// not specified (the store shows it, it has no data there) - such references are not executed
	unspecDo := func(ctx boltz.MutateContext, tgt *string) bool {
		return sc.w == fkIdxExtChildTarget && tgt != nil && sc.widgets.IsEntityPresent(ctx.Tx(), *tgt) && sc.special.GetEntityBucket(ctx.Tx(), []byte(*tgt)) == nil
	}
	unspecModel := func(m *fkModel, tgt *string) bool {
		if sc.w != fkIdxExtChildTarget || tgt == nil {
			return false
		}
		_, ok := m.widgets[*tgt]
		return ok && !m.special[*tgt]
	}
	for _, o := range sc.ownerIds {
		o := o
		sc.ops = append(sc.ops, explore.Op{
			Name: fmt.Sprintf("createOwner(%q)", o),
			Do: func(ctx boltz.MutateContext) error {
				return sc.owners.Create(ctx, world.NewRec("owners", o).With("label", "L"))
			},
			Apply: func(mm explore.Model) []string {
				m := mm.(*fkModel)
				if m.owners[o] {
					return []string{"exists"}
				}
				m.owners[o] = true
				return []string{"ok"}
			},
		}, explore.Op{
			Name: fmt.Sprintf("deleteOwner(%q)", o),
			Do:   func(ctx boltz.MutateContext) error { return sc.owners.DeleteById(ctx, o) },
			Apply: func(mm explore.Model) []string {
				m := mm.(*fkModel)
				if !m.owners[o] {
					return []string{"notfound"}
				}
				if len(m.referrers(o)) > 0 && !sc.w.cascade() {
					return []string{"refexists"}
				}
				m.cascadeDelete(o)
				return []string{"ok"}
			},
		})
	}
	var targets []*string
	targets = append(targets, nil)
	if sc.w.self() || sc.w.childTarget() {
		for _, w := range sc.widgetId {
			targets = append(targets, strp(w))
		}
	} else {
		for _, o := range sc.ownerIds {
			targets = append(targets, strp(o))
		}
	}
	targets = append(targets, strp(sc.missing))
	for _, w := range sc.widgetId {
		w := w
		for _, tgt := range targets {
			tgt := tgt
			ts := "null"
			if tgt != nil {
				ts = fmt.Sprintf("%q", *tgt)
			}
			sc.ops = append(sc.ops, explore.Op{
				Name: fmt.Sprintf("createWidget(%s,owner=%s)", w, ts),
				Do: func(ctx boltz.MutateContext) error {
					if unspecDo(ctx, tgt) {
						return errSkip
					}
					return sc.widgets.Create(ctx, sc.widgetRec(w, tgt))
				},
				Apply: func(mm explore.Model) []string {
					m := mm.(*fkModel)
					if unspecModel(m, tgt) {
						return []string{"skip"}
					}
					if _, ok := m.widgets[w]; ok {
						return []string{"exists"}
					}
					if errs := m.checkRef(w, tgt); errs != nil {
						return errs
					}
					m.widgets[w] = tgt
					return []string{"ok"}
				},
			}, explore.Op{
				Name: fmt.Sprintf("updateWidget(%s,owner=%s)", w, ts),
				Do: func(ctx boltz.MutateContext) error {
					if unspecDo(ctx, tgt) {
						return errSkip
					}
					return sc.widgets.Update(ctx, sc.widgetRec(w, tgt), nil)
				},
				Apply: func(mm explore.Model) []string {
					m := mm.(*fkModel)
					if unspecModel(m, tgt) {
						return []string{"skip"}
					}
					cur, ok := m.widgets[w]
					if !ok {
						return []string{"notfound"}
					}
					changed := (cur == nil) != (tgt == nil) || (cur != nil && *cur != *tgt)
					if changed {
						if errs := m.checkRef(w, tgt); errs != nil {
							return errs
						}
					}
					m.widgets[w] = tgt
					return []string{"ok"}
				},
			})
		}
		if sc.w.childTarget() {
			for _, tgt := range targets {
				tgt := tgt
				ts := "null"
				if tgt != nil {
					ts = fmt.Sprintf("%q", *tgt)
				}
				sc.ops = append(sc.ops, explore.Op{
					Name: fmt.Sprintf("createSpecial(%s,owner=%s)", w, ts),
					Do: func(ctx boltz.MutateContext) error {
						if tgt != nil && *tgt == w {
							return errSkip // whether an entity being created through the child store is already its own valid target is not specified
						}
						if unspecDo(ctx, tgt) {
							return errSkip
						}
						if sc.widgets.IsEntityPresent(ctx.Tx(), w) {
							return errSkip // promoting an existing parent entity through a child-store Create is not specified
						}
						return sc.special.Create(ctx, sc.widgetRec(w, tgt).With("grade", int64(7)))
					},
					Apply: func(mm explore.Model) []string {
						m := mm.(*fkModel)
						if tgt != nil && *tgt == w {
							return []string{"skip"}
						}
						if unspecModel(m, tgt) {
							return []string{"skip"}
						}
						if _, ok := m.widgets[w]; ok {
							return []string{"skip"}
						}
						if errs := m.checkRef(w, tgt); errs != nil {
							return errs
						}
						m.widgets[w] = tgt
						m.special[w] = true
						return []string{"ok"}
					},
				})
			}
		}
		sc.ops = append(sc.ops, explore.Op{
			Name: fmt.Sprintf("patchWidget[label](%s,owner=%q)", w, sc.missing),
			Do: func(ctx boltz.MutateContext) error {
				return sc.widgets.Update(ctx, sc.widgetRec(w, strp(sc.missing)), boltz.MapFieldChecker{"label": struct{}{}})
			},
			Apply: func(mm explore.Model) []string {
				m := mm.(*fkModel)
				if _, ok := m.widgets[w]; !ok {
					return []string{"notfound"}
				}
				return []string{"ok"}
			},
		}, explore.Op{
			Name: fmt.Sprintf("deleteWidget(%s)", w),
			Do: func(ctx boltz.MutateContext) error {
				if (sc.w == fkSelfCascade || sc.w == fkSelfIdxCascade) && sc.cycleCrash {
					if cyc, err := sc.implInCycle(ctx.Tx(), w); err != nil {
						return err
					} else if cyc {
						return fmt.Errorf("verif-cycle-recursion: cascade over a reference cycle recurses without bound (observed in a child process; not executed in-process)")
					}
				}
				if sc.w == fkSelfNone || sc.w == fkChildTarget {
					// restrict, and the entity's only referrer is the entity itself: whether that blocks the delete is
					// not specified (the fk-index flavour allows it, the constraint flavour refuses) - not executed
					e, found, err := sc.widgets.FindById(ctx.Tx(), w)
					if err != nil {
						return err
					}
					if found && e.F["owner"] != nil && e.F["owner"].(string) == w {
						others := false
						for _, o := range sc.widgetId {
							if oe, ofound, _ := sc.widgets.FindById(ctx.Tx(), o); o != w && ofound && oe.F["owner"] != nil && oe.F["owner"].(string) == w {
								others = true
							}
						}
						if !others {
							return errSkip
						}
					}
				}
				return sc.widgets.DeleteById(ctx, w)
			},
			Apply: func(mm explore.Model) []string {
				m := mm.(*fkModel)
				if _, ok := m.widgets[w]; !ok {
					return []string{"notfound"}
				}
				if cur := m.widgets[w]; (sc.w == fkSelfNone || sc.w == fkChildTarget) && cur != nil && *cur == w && len(m.otherReferrers(w)) == 0 {
					return []string{"skip"}
				}
				if sc.w.childTarget() {
					if len(m.otherReferrers(w)) > 0 {
						return []string{"refexists"}
					}
					delete(m.widgets, w)
					delete(m.special, w)
					return []string{"ok"}
				}
				if sc.w.self() {
					// an entity that only references itself can be deleted (no reference is left dangling)
					if len(m.otherReferrers(w)) > 0 && !sc.w.cascade() {
						return []string{"refexists"}
					}
					if sc.w.cascade() {
						m.cascadeDelete(w)
						return []string{"ok"}
					}
				}
				delete(m.widgets, w)
				return []string{"ok"}
			},
		})
	}
}

// implInCycle walks the stored references of the implementation's database.
func (sc *fkScenario) implInCycle(tx *bbolt.Tx, id string) (bool, error) {
	refs := map[string]string{}
	for _, w := range sc.widgetId {
		e, found, err := sc.widgets.FindById(tx, w)
		if err != nil {
			return false, err
		}
		if found && e.F["owner"] != nil {
			refs[w] = e.F["owner"].(string)
		}
	}
	m := &fkModel{sc: sc, widgets: map[string]*string{}}
	for w, o := range refs {
		o := o
		m.widgets[w] = &o
	}
	return m.inCycle(id), nil
}

func (sc *fkScenario) Invariant(tx *bbolt.Tx, mm explore.Model) error {
	m := mm.(*fkModel)
	target := sc.owners
	targetIds := sc.ownerIds
	if sc.w.self() {
		target = sc.widgets
		targetIds = sc.widgetId
	}
	if sc.w.childTarget() {
		target = sc.special
		targetIds = sc.widgetId
	}
	for _, o := range targetIds {
		if !m.targetExists(o) {
			continue
		}
		if sc.w.hasIndex() {
			want := m.referrers(o)
			got := target.GetRelatedEntitiesIdList(tx, o, "widgets")
			if strings.Join(got, ",") != strings.Join(want, ",") {
				return fmt.Errorf("GetRelatedEntitiesIdList(%q, widgets) = %v, model says %v", o, got, want)
			}
			var viaCursor []string
			for c := target.GetRelatedEntitiesCursor(tx, o, "widgets", true); c.IsValid(); c.Next() {
				viaCursor = append(viaCursor, string(c.Current()))
			}
			if strings.Join(viaCursor, ",") != strings.Join(want, ",") {
				return fmt.Errorf("GetRelatedEntitiesCursor(%q, widgets) = %q, model says %v", o, viaCursor, want)
			}
			for _, w := range sc.widgetId {
				wantRel := false
				for _, x := range want {
					if x == w {
						wantRel = true
					}
				}
				if got := target.IsEntityRelated(tx, o, "widgets", w); got != wantRel {
					return fmt.Errorf("IsEntityRelated(%q, widgets, %q) = %v, model says %v", o, w, got, wantRel)
				}
			}
		}
	}
	for _, w := range sc.widgetId {
		e, found, err := sc.widgets.FindById(tx, w)
		if err != nil {
			return err
		}
		cur, ok := m.widgets[w]
		if found != ok {
			return fmt.Errorf("widget %s: exists=%v, model says %v", w, found, ok)
		}
		if found {
			gs := "null"
			if e.F["owner"] != nil {
				gs = e.F["owner"].(string)
			}
			ws := "null"
			if cur != nil {
				ws = *cur
			}
			if gs != ws {
				return fmt.Errorf("widget %s: owner=%q, model says %q", w, gs, ws)
			}
		}
	}
	return nil
}

var hostileIds = []string{`a"b`, `a\b`, `x" or true or id = "`, `and`, `a b`, "a\nb", `null`, `a\nb`}

// ProbeFkCycle is run in a child process: builds a reference cycle under the self-referential
// cascade wiring and deletes a member. A run-away recursion ends the child with a fatal error.
func ProbeFkCycle(shape string) int {
	debug.SetMaxStack(32 << 20)
	sc := newFkScenario(fkSelfCascade, nil, []string{"w1", "w2"}, "probe")
	dir := os.Getenv("VERIF_PROBE_DIR") // created and removed by the parent (this process may die fatally)
	if dir == "" {
		return 3
	}
	db, err := boltz.Open(dir+"/p.db", "root")
	if err != nil {
		return 3
	}
	defer db.Close()
	_ = sc.InitDb(db)
	w1, w2 := "w1", "w2"
	err = db.Update(nil, func(ctx boltz.MutateContext) error {
		if shape == "self" {
			if err := sc.widgets.Create(ctx, sc.widgetRec("w1", nil)); err != nil {
				return err
			}
			return sc.widgets.Update(ctx, sc.widgetRec("w1", &w1), nil)
		}
		if err := sc.widgets.Create(ctx, sc.widgetRec("w1", nil)); err != nil {
			return err
		}
		if err := sc.widgets.Create(ctx, sc.widgetRec("w2", &w1)); err != nil {
			return err
		}
		return sc.widgets.Update(ctx, sc.widgetRec("w1", &w2), nil)
	})
	if err != nil {
		fmt.Println("probe setup failed:", err)
		return 3
	}
	err = db.Update(nil, func(ctx boltz.MutateContext) error { return sc.widgets.DeleteById(ctx, "w1") })
	if err != nil {
		fmt.Println("probe delete error:", err)
		return 4
	}
	fmt.Println("probe: delete over cycle completed")
	return 0
}

func probeCycleCrashes() bool {
	exe, err := os.Executable()
	if err != nil {
		return true
	}
	crashed := false
	for _, shape := range []string{"self", "two"} {
		dir := explore.TmpDir("probe")
		cmd := exec.Command(exe, "-probe", "fkcycle-"+shape)
		cmd.Env = append(os.Environ(), "GOTRACEBACK=none", "VERIF_PROBE_DIR="+dir)
		out, err := cmd.CombinedOutput()
		_ = os.RemoveAll(dir)
		if err != nil && strings.Contains(string(out), "stack") {
			crashed = true
		} else if err != nil && cmd.ProcessState != nil && cmd.ProcessState.ExitCode() == 2 {
			crashed = true
		}
	}
	return crashed
}

func C04(tier string) int {
	rep := report.New("C04", tier, "model_checking")
	rep.Assume("bbolt transactions are atomic and isolated (trusted base)")
	rep.Assume("universe: 2 targets, 2 referrers, reference in {null, each target, missing}; hostile id strings as target ids")
	rep.Set("rule", "BFS to closure per wiring; oracle = complete image from reference model (back-reference buckets included), API reads, error class per operation")

	plainOwners := []string{"o1", "o1x"} // prefix-related ids on purpose
	widgets := []string{"w1", "w1x"}
	run := func(sc *fkScenario) {
		n := len(sc.Ops())
		ops := sc.Ops()
		// refused deletes also through Db.Batch (which re-runs a failed function on its own)
		runE1(rep, sc, explore.Config{Programs: explore.SingleOps(n), BatchRejected: func(p []int) bool {
			return len(p) == 1 && strings.HasPrefix(ops[p[0]].Name, "delete")
		}})
	}
	wirings := []fkWiring{fkIdxNullable, fkIdxNonNull, fkIdxCascade, fkcNoneNullable, fkcNoneNonNull, fkcCascadeNullable, fkcCascadeNonNull}
	for _, w := range wirings {
		run(newFkScenario(w, plainOwners, widgets, "plain ids"))
	}
	// three referrers, and the delete of the target in the same transaction as an earlier change of
	// the referencing store (the cascade/restrict scan then runs over uncommitted pages)
	for _, w := range wirings {
		sc := newFkScenario(w, plainOwners, []string{"w1", "w1x", "w3"}, "3 referrers, 2 ops per tx")
		var progs [][]int
		if tier == "quick" {
			for i, a := range sc.Ops() {
				progs = append(progs, []int{i})
				for j, b := range sc.Ops() {
					if strings.HasPrefix(b.Name, "deleteOwner(") && !strings.HasPrefix(a.Name, "deleteOwner(") {
						progs = append(progs, []int{i, j})
					}
				}
			}
		} else {
			progs = explore.Pairs(len(sc.Ops()))
		}
		runE1(rep, sc, explore.Config{Programs: progs, SkipRejectedPrefix: true})
	}
	// a cascade that recurses without bound over a reference cycle would kill this process (a stack overflow is fatal
	// in Go): it is probed in a child process first, and the cycle deletes of both self-referential cascade wirings
	// are then reported instead of executed
	cycleCrash := probeCycleCrashes()
	rep.Set("cascade_cycle_recursion_observed_in_child_process", cycleCrash)
	selfCascade := newFkScenario(fkSelfCascade, nil, []string{"w1", "w1x", "w3"}, "plain ids")
	selfCascade.cycleCrash = cycleCrash
	run(selfCascade)
	selfIdxCascade := newFkScenario(fkSelfIdxCascade, nil, []string{"w1", "w1x", "w3"}, "plain ids")
	selfIdxCascade.cycleCrash = cycleCrash
	run(selfIdxCascade)
	run(newFkScenario(fkSelfIdxNullable, nil, []string{"w1", "w1x", "w3"}, "plain ids"))
	run(newFkScenario(fkSelfNone, nil, []string{"w1", "w1x", "w3"}, "plain ids"))
	run(newFkScenario(fkChildTarget, nil, []string{"w1", "w1x", "w3"}, "plain ids"))
	run(newFkScenario(fkIdxExtChildTarget, nil, []string{"w1", "w1x", "w3"}, "plain ids"))

	// hostile target ids: every id string must behave like any other id
	hostWirings := []fkWiring{fkIdxCascade, fkcNoneNullable, fkcCascadeNullable}
	if tier != "quick" {
		hostWirings = wirings
	}
	for _, w := range hostWirings {
		for _, h := range hostileIds {
			run(newFkScenario(w, []string{"o1", h}, widgets, fmt.Sprintf("hostile id %q", h)))
		}
	}
	return rep.Finish()
}
