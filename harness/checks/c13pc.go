package checks

import (
	"fmt"
	"os"
	"sort"
	"strings"
	"time"

	"github.com/openziti/storage/boltz"
	"go.etcd.io/bbolt"
	"verif/explore"
	"verif/report"
)

// pcEnt is persisted through every setter of boltz.PersistContext (the entity-level write path).
type pcEnt struct {
	Id    string
	Req   string // SetRequiredString
	Gs    string // GetAndSetString
	B     bool   // SetBool
	I32   int32  // SetInt32
	I64   int64  // SetInt64
	Gl    []string
	T     *time.Time
	M     map[string]interface{}
	Sp    *string
	api   string // stored as "store", selected through the API name "api" (WithFieldOverrides)
	seen  map[string]string
	seenL []string
}

func (e *pcEnt) GetId() string         { return e.Id }
func (e *pcEnt) SetId(id string)       { e.Id = id }
func (e *pcEnt) GetEntityType() string { return "pcents" }

type pcStrategy struct{}

func (pcStrategy) NewEntity() *pcEnt { return &pcEnt{} }
func (pcStrategy) FillEntity(e *pcEnt, b *boltz.TypedBucket) {
	e.Req = b.GetStringOrError("req")
	e.Gs = b.GetStringWithDefault("gs", "<nil>")
	e.B = b.GetBoolWithDefault("b", false)
	if v := b.GetInt32("i32"); v != nil {
		e.I32 = *v
	}
	if v := b.GetInt64("i64"); v != nil {
		e.I64 = *v
	}
	e.Gl = b.GetStringList("gl")
	e.T = b.GetTime("t")
	e.M = b.GetMap("m")
	e.Sp = b.GetString("sp")
	e.api = b.GetStringWithDefault("store", "<nil>")
}
func (pcStrategy) PersistEntity(e *pcEnt, ctx *boltz.PersistContext) {
	ctx.WithFieldOverrides(map[string]string{"store": "api"})
	ctx.SetRequiredString("req", e.Req)
	old, changed := ctx.GetAndSetString("gs", e.Gs)
	if e.seen != nil {
		e.seen["gs"] = fmt.Sprintf("%v/%v", derefS(old), changed)
	}
	ctx.SetBool("b", e.B)
	ctx.SetInt32("i32", e.I32)
	ctx.SetInt64("i64", e.I64)
	oldL, changedL := ctx.GetAndSetStringList("gl", e.Gl)
	if e.seen != nil {
		e.seen["gl"] = fmt.Sprintf("%v/%v", oldL, changedL)
	}
	ctx.SetTimeP("t", e.T)
	ctx.SetMap("m", e.M)
	ctx.SetStringP("sp", e.Sp)
	ctx.SetString("store", e.api)
}

func (e *pcEnt) summary() string {
	t := "<nil>"
	if e.T != nil {
		t = e.T.UTC().Format(time.RFC3339Nano)
	}
	var mk []string
	for k, v := range e.M {
		mk = append(mk, fmt.Sprintf("%s=%v", k, v))
	}
	sort.Strings(mk)
	return fmt.Sprintf("req=%s gs=%s b=%v i32=%d i64=%d gl=%v t=%s m=%v sp=%s store=%s", e.Req, e.Gs, e.B, e.I32, e.I64, e.Gl, t, mk, derefS(e.Sp), e.api)
}

// c13PersistContext: every PersistContext setter under every field-checker selection (2^10 selections, the mapped field
// selected through its API name), old values staying where the checker does not select; a required string that is
// empty refuses the whole update. (What GetAndSet* return is not part of the property and not judged.)
func c13PersistContext(rep *report.Report) {
	dir := explore.TmpDir("c13pc")
	defer os.RemoveAll(dir)
	db, err := boltz.Open(dir+"/pc.db", "root")
	if err != nil {
		panic(err)
	}
	defer db.Close()
	store := boltz.NewBaseStore(boltz.StoreDefinition[*pcEnt]{EntityType: "pcents", EntityStrategy: pcStrategy{}, BasePath: []string{"root"},
		EntityNotFoundF: func(id string) error { return boltz.NewNotFoundError("pcent", "id", id) }})
	store.InitImpl(store)
	t0, t1 := time.Date(2020, 1, 2, 3, 4, 5, 6, time.UTC), time.Date(2021, 6, 7, 8, 9, 10, 11, time.UTC)
	sp0, sp1 := "sp-old", "sp-new"
	oldE := func() *pcEnt {
		return &pcEnt{Id: "x", Req: "r-old", Gs: "g-old", B: false, I32: -3, I64: 1 << 40, Gl: []string{"a", "b"}, T: &t0, M: map[string]interface{}{"k": "old"}, Sp: &sp0, api: "api-old"}
	}
	newE := func() *pcEnt {
		return &pcEnt{Id: "x", Req: "r-new", Gs: "g-new", B: true, I32: 7, I64: -(1 << 41), Gl: []string{"c"}, T: &t1, M: map[string]interface{}{"j": int64(2)}, Sp: &sp1, api: "api-new"}
	}
	fields := []string{"req", "gs", "b", "i32", "i64", "gl", "t", "m", "sp", "api"}
	expect := func(sel map[string]bool) string {
		o, n := oldE(), newE()
		pick := func(f string) bool { return sel == nil || sel[f] }
		if pick("req") {
			o.Req = n.Req
		}
		if pick("gs") {
			o.Gs = n.Gs
		}
		if pick("b") {
			o.B = n.B
		}
		if pick("i32") {
			o.I32 = n.I32
		}
		if pick("i64") {
			o.I64 = n.I64
		}
		if pick("gl") {
			o.Gl = n.Gl
		}
		if pick("t") {
			o.T = n.T
		}
		if pick("m") {
			o.M = n.M
		}
		if pick("sp") {
			o.Sp = n.Sp
		}
		if pick("api") {
			o.api = n.api
		}
		return o.summary()
	}
	for mask := -1; mask < 1<<len(fields); mask++ {
		var checker boltz.FieldChecker
		var sel map[string]bool
		var names []string
		if mask >= 0 {
			mc := boltz.MapFieldChecker{}
			sel = map[string]bool{}
			for i, f := range fields {
				if mask&(1<<i) != 0 {
					mc[f] = struct{}{}
					sel[f] = true
					names = append(names, f)
				}
			}
			checker = mc
		}
		what := fmt.Sprintf("checker=%v", names)
		if mask < 0 {
			what = "checker=nil (full update)"
		}
		rep.Count("evaluations", 1)
		rep.Outcome("persist-context")
		seen := map[string]string{}
		err := db.Update(nil, func(ctx boltz.MutateContext) error {
			if store.IsEntityPresent(ctx.Tx(), "x") {
				if err := store.DeleteById(ctx, "x"); err != nil {
					return err
				}
			}
			if err := store.Create(ctx, oldE()); err != nil {
				return err
			}
			n := newE()
			n.seen = seen
			return store.Update(ctx, n, checker)
		})
		if err != nil {
			rep.Violation("C13|persist-context|"+what, what+": update failed: "+err.Error(), nil)
			continue
		}
		var got string
		_ = db.View(func(tx *bbolt.Tx) error {
			e, found, err := store.FindById(tx, "x")
			if err != nil || !found {
				got = fmt.Sprintf("not readable: found=%v err=%v", found, err)
			} else {
				got = e.summary()
			}
			return nil
		})
		if want := expect(sel); got != want {
			rep.Violation("C13|persist-context|"+what, fmt.Sprintf("%s: stored entity reads %s, expected %s", what, got, want), nil)
		}
	}
	// a required string that is empty refuses the update and leaves every field as it was
	for _, withChecker := range []bool{false, true} {
		var checker boltz.FieldChecker
		if withChecker {
			checker = boltz.MapFieldChecker{"req": struct{}{}, "gs": struct{}{}, "i64": struct{}{}}
		}
		rep.Count("evaluations", 1)
		err := db.Update(nil, func(ctx boltz.MutateContext) error {
			if err := store.DeleteById(ctx, "x"); err != nil {
				return err
			}
			return store.Create(ctx, oldE())
		})
		if err == nil {
			err = db.Update(nil, func(ctx boltz.MutateContext) error {
				n := newE()
				n.Req = ""
				return store.Update(ctx, n, checker)
			})
			if err == nil {
				rep.Violation(fmt.Sprintf("C13|persist-context|required-empty|checker=%v", withChecker), "an update writing an empty value through SetRequiredString succeeded", nil)
			} else if !strings.Contains(fmt.Sprintf("%T %v", err, err), "req") {
				rep.Violation(fmt.Sprintf("C13|persist-context|required-empty|checker=%v", withChecker), "the refusal does not mention the required field: "+err.Error(), nil)
			}
			var got string
			_ = db.View(func(tx *bbolt.Tx) error {
				if e, found, _ := store.FindById(tx, "x"); found {
					got = e.summary()
				}
				return nil
			})
			if got != oldE().summary() {
				rep.Violation(fmt.Sprintf("C13|persist-context|required-empty-changed-state|checker=%v", withChecker), "after the refused update the entity reads "+got+", expected "+oldE().summary(), nil)
			}
		} else {
			rep.Violation("C13|persist-context|setup", err.Error(), nil)
		}
	}
}
