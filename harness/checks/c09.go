package checks

import (
	"context"
	"fmt"
	"os"
	"runtime"
	"sort"
	"strings"
	"sync"

	"github.com/openziti/storage/boltz"
	"go.etcd.io/bbolt"
	"verif/dump"
	"verif/explore"
	"verif/report"
	"verif/world"
)

// ---------------------------------------------------------------------------------------------
// C09 — integrity check: sound, complete, read-only in check mode, convergent in fix mode.

// c09Item is one inconsistency the reference differ expects to be reported.
type c09Item struct {
	kind    string
	needles []string // strings the report must mention (ids, values)
	fixable bool
}

func tv(s string) string { return world.TypedKey(s) }

func strVal(b []byte) (string, bool) {
	if len(b) >= 1 && b[0] == 5 {
		return string(b[1:]), true
	}
	return "", false
}

// refIntegrity is an independent statement of what the integrity check must find in (and, with fix,
// how it must repair) a kitchen-sink database image. It works on the raw image only.
func refIntegrity(t *dump.Tree, fix bool) ([]c09Item, *dump.Tree) {
	t = t.Clone()
	var items []c09Item
	people := t.Ensure("root", "people")
	orgs := t.Ensure("root", "orgs")
	places := t.Ensure("root", "places")
	pets := t.Ensure("root", "pets")
	ids := func(b *dump.Tree) []string {
		var out []string
		for k := range b.Buckets {
			out = append(out, k)
		}
		sort.Strings(out)
		return out
	}
	sortedKeys := func(m map[string][]byte) []string {
		var out []string
		for k := range m {
			out = append(out, k)
		}
		sort.Strings(out)
		return out
	}
	untyped := func(k string) string { return strings.TrimPrefix(k, "\x05") }

	// ---- link collections people.places <-> places.people (checked from both stores)
	linkSide := func(a *dump.Tree, aField string, b *dump.Tree, bField string, aName, bName string) {
		for _, id := range ids(a) {
			lb := a.Buckets[id].Buckets[aField]
			if lb == nil {
				continue
			}
			for _, k := range sortedKeys(lb.Values) {
				other := untyped(k)
				ob := b.Buckets[other]
				if ob == nil {
					items = append(items, c09Item{"link-dangling", []string{id, other}, true})
					if fix {
						delete(lb.Values, k)
					}
					continue
				}
				if ob.Buckets[bField] == nil || ob.Buckets[bField].Values[tv(id)] == nil {
					items = append(items, c09Item{"link-one-sided", []string{id, other}, true})
					if fix {
						ob.Ensure(bField).Values[tv(id)] = []byte{}
					}
				}
			}
		}
	}
	linkSide(people, "places", places, "people", "person", "place")
	// ---- people: unique index on name
	nameIdx := t.Ensure("root", "indexes", "people", "name")
	for _, v := range sortedKeys(nameIdx.Values) {
		id := string(nameIdx.Values[v])
		pb := people.Buckets[id]
		if pb == nil {
			items = append(items, c09Item{"unique-dangling", []string{id, v}, true})
			if fix {
				delete(nameIdx.Values, v)
			}
			continue
		}
		if cur, _ := strVal(pb.Values["name"]); cur != v {
			items = append(items, c09Item{"unique-stale", []string{id, v}, true})
			if fix {
				delete(nameIdx.Values, v)
			}
		}
	}
	for _, id := range ids(people) {
		cur, ok := strVal(people.Buckets[id].Values["name"])
		if !ok {
			items = append(items, c09Item{"unique-null", []string{id}, false})
			continue
		}
		holder, present := nameIdx.Values[cur]
		if !present {
			items = append(items, c09Item{"unique-missing", []string{id, cur}, true})
			if fix {
				nameIdx.Values[cur] = []byte(id)
			}
		} else if string(holder) != id {
			items = append(items, c09Item{"unique-conflict", []string{id, cur, string(holder)}, false})
		}
	}
	// ---- people: set index on roles
	rolesIdx := t.Ensure("root", "indexes", "people", "roles")
	if fix {
		for k := range rolesIdx.Values { // stray non-bucket keys carry no index information
			delete(rolesIdx.Values, k)
		}
	}
	for _, role := range ids(rolesIdx) {
		kb := rolesIdx.Buckets[role]
		had := len(kb.Values) > 0
		for _, k := range sortedKeys(kb.Values) {
			id := untyped(k)
			pb := people.Buckets[id]
			if pb == nil {
				items = append(items, c09Item{"set-dangling", []string{id, role}, true})
				if fix {
					delete(kb.Values, k)
				}
				continue
			}
			if pb.Buckets["roles"] == nil || pb.Buckets["roles"].Values[tv(role)] == nil {
				items = append(items, c09Item{"set-extra", []string{id, role}, true})
				if fix {
					delete(kb.Values, k)
				}
			}
		}
		if !had {
			items = append(items, c09Item{"set-empty-key", []string{role}, true})
		}
		if fix && len(kb.Values) == 0 {
			delete(rolesIdx.Buckets, role)
		}
	}
	for _, id := range ids(people) {
		rb := people.Buckets[id].Buckets["roles"]
		if rb == nil {
			continue
		}
		for _, k := range sortedKeys(rb.Values) {
			role := untyped(k)
			kb := rolesIdx.Buckets[role]
			if kb == nil || kb.Values[tv(id)] == nil {
				items = append(items, c09Item{"set-missing", []string{id, role}, true})
				if fix {
					rolesIdx.Ensure(role).Values[tv(id)] = []byte{}
				}
			}
		}
	}
	// ---- fk indexes: people.org -> orgs.members (nullable), pets.owner -> people.pets (non-null)
	fk := func(referrers *dump.Tree, field string, targets *dump.Tree, backField string, nullable bool) {
		for _, tid := range ids(targets) {
			bb := targets.Buckets[tid].Buckets[backField]
			if bb == nil {
				continue
			}
			for _, k := range sortedKeys(bb.Values) {
				rid := untyped(k)
				rb := referrers.Buckets[rid]
				if rb == nil {
					items = append(items, c09Item{"fk-backref-dangling", []string{tid, rid}, true})
					if fix {
						delete(bb.Values, k)
					}
					continue
				}
				if cur, ok := strVal(rb.Values[field]); !ok || cur != tid {
					items = append(items, c09Item{"fk-backref-extra", []string{tid, rid}, true})
					if fix {
						delete(bb.Values, k)
					}
				}
			}
		}
		for _, rid := range ids(referrers) {
			rb := referrers.Buckets[rid]
			cur, ok := strVal(rb.Values[field])
			if !ok || cur == "" {
				if !nullable {
					items = append(items, c09Item{"fk-null-in-non-nullable", []string{rid}, false})
				}
				continue
			}
			tb := targets.Buckets[cur]
			if tb == nil {
				items = append(items, c09Item{"fk-dangling-reference", []string{rid, cur}, nullable})
				if fix && nullable {
					rb.Values[field] = world.EncNil()
				}
				continue
			}
			if tb.Buckets[backField] == nil || tb.Buckets[backField].Values[tv(rid)] == nil {
				items = append(items, c09Item{"fk-backref-missing", []string{rid, cur}, true})
				if fix {
					tb.Ensure(backField).Values[tv(rid)] = []byte{}
				}
			}
		}
	}
	fk(people, kOrgKey, orgs, "members", true)
	linkSide(places, "people", people, "places", "place", "person")
	fk(pets, "owner", people, "pets", false)
	return items, t
}

type c09Atom struct {
	name  string
	apply func(tx *bbolt.Tx) error
}

func rawPath(tx *bbolt.Tx, create bool, path ...string) *bbolt.Bucket {
	b := tx.Bucket([]byte(path[0]))
	for _, p := range path[1:] {
		if b == nil {
			return nil
		}
		nb := b.Bucket([]byte(p))
		if nb == nil && create {
			nb, _ = b.CreateBucket([]byte(p))
		}
		b = nb
	}
	return b
}

func c09Atoms() []c09Atom {
	put := func(path []string, key string, val []byte) func(tx *bbolt.Tx) error {
		return func(tx *bbolt.Tx) error {
			b := rawPath(tx, true, path...)
			if b == nil {
				return fmt.Errorf("no bucket %v", path)
			}
			return b.Put([]byte(key), val)
		}
	}
	del := func(path []string, key string) func(tx *bbolt.Tx) error {
		return func(tx *bbolt.Tx) error {
			b := rawPath(tx, false, path...)
			if b == nil {
				return nil
			}
			return b.Delete([]byte(key))
		}
	}
	delBucket := func(path []string, name string) func(tx *bbolt.Tx) error {
		return func(tx *bbolt.Tx) error {
			b := rawPath(tx, false, path...)
			if b == nil || b.Bucket([]byte(name)) == nil {
				return nil
			}
			return b.DeleteBucket([]byte(name))
		}
	}
	nameIdx := []string{"root", "indexes", "people", "name"}
	roles := []string{"root", "indexes", "people", "roles"}
	return []c09Atom{
		// whole buckets missing (not merely an entry inside an existing bucket)
		{"fk: back-reference bucket of #o1 missing altogether", delBucket([]string{"root", "orgs", "#o1"}, "members")},
		{"link: link bucket of place #l1 missing altogether", delBucket([]string{"root", "places", "#l1"}, "people")},
		{"link: link bucket of person #p1 missing altogether", delBucket([]string{"root", "people", "#p1"}, "places")},
		{"unique: entry for NameA missing", del(nameIdx, "NameA")},
		{"unique: dangling entry NameZ -> #zz", put(nameIdx, "NameZ", []byte("#zz"))},
		{"unique: NameA points to #p1x (wrong target)", put(nameIdx, "NameA", []byte("#p1x"))},
		{"unique: stale entry NameY -> #p1", put(nameIdx, "NameY", []byte("#p1"))},
		{"set: #p1 missing under role1", del(append(append([]string{}, roles...), "role1"), tv("#p1"))},
		{"set: extra #p1 under role2", put(append(append([]string{}, roles...), "role2"), tv("#p1"), []byte{})},
		{"set: dangling #zz under role1", put(append(append([]string{}, roles...), "role1"), tv("#zz"), []byte{})},
		{"set: empty key role9", func(tx *bbolt.Tx) error {
			rawPath(tx, true, append(append([]string{}, roles...), "role9")...)
			return nil
		}},
		{"set: key role1 missing entirely", func(tx *bbolt.Tx) error {
			b := rawPath(tx, false, roles...)
			if b == nil || b.Bucket([]byte("role1")) == nil {
				return nil
			}
			return b.DeleteBucket([]byte("role1"))
		}},
		{"fk: back-reference #o1 -> #p1 missing", del([]string{"root", "orgs", "#o1", "members"}, tv("#p1"))},
		{"fk: extra back-reference #o1 -> #p1x", put([]string{"root", "orgs", "#o1", "members"}, tv("#p1x"), []byte{})},
		{"fk: dangling back-reference #o1 -> #zz", put([]string{"root", "orgs", "#o1", "members"}, tv("#zz"), []byte{})},
		{"fk: #p1x.org references missing #zz (nullable)", put([]string{"root", "people", "#p1x"}, kOrgKey, world.EncString("#zz"))},
		{"fk: #t1.owner references missing #zz (non-nullable)", put([]string{"root", "pets", "#t1"}, "owner", world.EncString("#zz"))},
		{"fk: #t1.owner null in non-nullable", put([]string{"root", "pets", "#t1"}, "owner", world.EncNil())},
		{"link: place side of #p1-#l1 missing", del([]string{"root", "places", "#l1", "people"}, tv("#p1"))},
		{"link: person side of #p1-#l1 missing", del([]string{"root", "people", "#p1", "places"}, tv("#l1"))},
		{"link: #p1x linked to missing #zz", put([]string{"root", "people", "#p1x", "places"}, tv("#zz"), []byte{})},
		{"conflict: #p1x.name overwritten with NameA", put([]string{"root", "people", "#p1x"}, "name", world.EncString("NameA"))},
		{"set: stray non-bucket key in the index", put(roles, "stray", []byte("x"))},
		// the same corruption classes aimed at the other entity (position within a bucket matters to a scanning checker)
		{"unique: entry for NameB missing", del(nameIdx, "NameB")},
		{"set: #p1x missing under role1", del(append(append([]string{}, roles...), "role1"), tv("#p1x"))},
		{"set: extra #p1x under role2", put(append(append([]string{}, roles...), "role2"), tv("#p1x"), []byte{})},
		{"set: extra #p1x under role1 and dangling #zz under role2", func(tx *bbolt.Tx) error {
			if err := put(append(append([]string{}, roles...), "role1"), tv("#p1x"), []byte{})(tx); err != nil {
				return err
			}
			return put(append(append([]string{}, roles...), "role2"), tv("#zz"), []byte{})(tx)
		}},
		{"fk: back-reference #o1 -> #p1x missing", del([]string{"root", "orgs", "#o1", "members"}, tv("#p1x"))},
		{"link: place side of #p1x-#l1 missing", del([]string{"root", "places", "#l1", "people"}, tv("#p1x"))},
		{"link: #p1 linked to missing #zz", put([]string{"root", "people", "#p1", "places"}, tv("#zz"), []byte{})},
	}
}

type c09Base struct {
	name  string
	build func(k *kitchen, ctx boltz.MutateContext) error
}

func c09Bases() []c09Base {
	o1 := "#o1"
	person := func(k *kitchen, ctx boltz.MutateContext, via, id, name string, roles []string, org *string) error {
		tr := true
		nick := "nn"
		return k.storeFor(via).Create(ctx, k.personRec(id, name, roles, org, &tr, &nick))
	}
	common := func(k *kitchen, ctx boltz.MutateContext) error {
		if err := k.orgs.Create(ctx, world.NewRec("orgs", "#o1").With("label", "L")); err != nil {
			return err
		}
		return k.places.Create(ctx, world.NewRec("places", "#l1").With("label", "L"))
	}
	return []c09Base{
		{"rich: p1{NameA,[role1],org o1,link l1} p2{NameB,[role1 role2]} pet t1->p1", func(k *kitchen, ctx boltz.MutateContext) error {
			if err := common(k, ctx); err != nil {
				return err
			}
			if err := person(k, ctx, "people", "#p1", "NameA", []string{"role1"}, &o1); err != nil {
				return err
			}
			if err := person(k, ctx, "mgr", "#p1x", "NameB", []string{"role1", "role2"}, nil); err != nil {
				return err
			}
			if err := k.lp.AddLinks(ctx.Tx(), "#p1", "#l1"); err != nil {
				return err
			}
			return k.pets.Create(ctx, world.NewRec("pets", "#t1").With("label", "L").With("owner", "#p1"))
		}},
		{"dense: both people in o1, both linked to l1, pet t1->p2", func(k *kitchen, ctx boltz.MutateContext) error {
			if err := common(k, ctx); err != nil {
				return err
			}
			if err := person(k, ctx, "prof", "#p1", "NameA", []string{"role1", "role2"}, &o1); err != nil {
				return err
			}
			if err := person(k, ctx, "people", "#p1x", "NameB", []string{"role1"}, &o1); err != nil {
				return err
			}
			if err := k.ll.AddLinks(ctx.Tx(), "#l1", "#p1", "#p1x"); err != nil {
				return err
			}
			return k.pets.Create(ctx, world.NewRec("pets", "#t1").With("label", "L").With("owner", "#p1x"))
		}},
		{"three people (one id 70 bytes long) in o1 sharing role1, all linked to l1 and to a place with a 70-byte id", func(k *kitchen, ctx boltz.MutateContext) error {
			if err := common(k, ctx); err != nil {
				return err
			}
			longP, longL := "#p1x"+strings.Repeat("y", 66), "#l1"+strings.Repeat("z", 67)
			if err := k.places.Create(ctx, world.NewRec("places", longL).With("label", "L")); err != nil {
				return err
			}
			for i, id := range []string{"#p1", "#p1x", longP} {
				if err := person(k, ctx, []string{"people", "mgr", "prof"}[i], id, []string{"NameA", "NameB", "NameC"}[i], []string{"role1"}, &o1); err != nil {
					return err
				}
				if err := k.lp.AddLinks(ctx.Tx(), id, "#l1", longL); err != nil {
					return err
				}
			}
			return k.pets.Create(ctx, world.NewRec("pets", "#t1").With("label", "L").With("owner", longP))
		}},
		{"sparse: p1{NameA} only (no org, no roles, no links, no pets)", func(k *kitchen, ctx boltz.MutateContext) error {
			if err := common(k, ctx); err != nil {
				return err
			}
			return person(k, ctx, "people", "#p1", "NameA", nil, nil)
		}},
	}
}

type c09Report struct {
	msg   string
	fixed bool
}

func (k *kitchen) checkAll(ctx boltz.MutateContext, fix bool) ([]c09Report, error) {
	var reports []c09Report
	sink := func(err error, fixed bool) { reports = append(reports, c09Report{err.Error(), fixed}) }
	for _, s := range []*world.Store{k.people, k.orgs, k.places, k.pets, k.mgr, k.prof} {
		if err := s.CheckIntegrity(ctx, fix, sink); err != nil {
			return reports, err
		}
	}
	return reports, nil
}

func c09Norm(t *dump.Tree) *dump.Tree {
	n := t.PruneEmpty(func(path []string) bool {
		return len(path) == 5 && path[1] == "indexes" && path[3] == "roles"
	})
	// a field written as a zero-length value reads back as null exactly like the typed nil marker
	for _, store := range []string{"people", "pets"} {
		if sb := n.Get("root", store); sb != nil {
			for _, eb := range sb.Buckets {
				for k, v := range eb.Values {
					if len(v) == 0 {
						eb.Values[k] = world.EncNil()
					}
				}
			}
		}
	}
	return n
}

func matchItems(items []c09Item, reports []c09Report, fixMode bool) string {
	for _, it := range items {
		found, flagOk := false, false
		for _, r := range reports {
			all := true
			for _, n := range it.needles {
				if !strings.Contains(r.msg, n) {
					all = false
				}
			}
			if all {
				found = true
				if !fixMode || r.fixed == it.fixable {
					flagOk = true
				}
			}
		}
		if !found {
			return fmt.Sprintf("inconsistency %s %v not reported", it.kind, it.needles)
		}
		if !flagOk {
			return fmt.Sprintf("inconsistency %s %v reported with fixed=%v, expected fixed=%v", it.kind, it.needles, !it.fixable, it.fixable)
		}
	}
	return ""
}

func C09(tier string) int {
	rep := report.New("C09", tier, "model_checking")
	thorough := tier != "quick"
	rep.Assume("corruptions are raw bucket edits of the supported classes on three base states built through the API; clean-state soundness is checked on every reachable state of the kitchen-sink exploration")
	rep.Set("rule", "(a) BFS over the kitchen-sink schema: on every reachable state check-only and fix runs must report nothing and change nothing; (b) 4 base states (one with three people and 70-byte ids) x ALL subsets of size <= 2 (thorough: 3) of 27 corruption atoms, applied in an earlier transaction and in the same transaction as the fix: check-only reports every item of an independent reference diff and leaves the file unchanged; fix repairs to the reference-repaired image; re-check reports only the unfixable conflicts")

	// ---- (a) soundness on healthy reachable states
	k := newKitchen("integrity soundness", kFeat{orgs: true, places: true, pets: true, rc: true, maxCount: 1})
	cfg := explore.Config{Programs: explore.SingleOps(len(k.Ops())), MaxDepth: 3}
	if thorough {
		cfg.MaxDepth = 4
	}
	cfg.PostCommit = func(db *boltz.DbImpl, st *explore.State, rep *report.Report) {
		for _, fix := range []bool{false, true} {
			var reports []c09Report
			var before, after *dump.Tree
			_ = db.View(func(tx *bbolt.Tx) error { before = dump.Tx(tx); return nil })
			var err error
			// observed inside a transaction that is rolled back: the explorer's state file stays untouched
			_ = db.Update(nil, func(ctx boltz.MutateContext) error {
				reports, err = k.checkAll(ctx, fix)
				after = dump.Tx(ctx.Tx())
				return errSkip
			})
			rep.Count("healthy_states_checked", 1)
			sig := fmt.Sprintf("C09|healthy-state|fix=%v", fix)
			if err != nil {
				rep.Violation(sig+"|error", fmt.Sprintf("integrity check failed on a healthy state: %v\nhistory: %v", err, st.History), map[string]interface{}{"history": st.History})
			} else if len(reports) > 0 {
				rep.Violation(sig+"|false-report", fmt.Sprintf("healthy state reported as inconsistent: %q\nhistory: %v", reports[0].msg, st.History), map[string]interface{}{"history": st.History})
			} else if !c09Norm(before).Equal(c09Norm(after)) {
				rep.Violation(sig+"|changed-database", fmt.Sprintf("integrity check (fix=%v) changed a healthy database:\n%s\nhistory: %v", fix, dump.Diff(c09Norm(before), c09Norm(after)), st.History), map[string]interface{}{"history": st.History})
			}
		}
	}
	// the same on every reachable UNCOMMITTED state: the checker runs inside the transaction that just
	// executed the operation (entries written earlier in the same transaction must be seen like committed ones)
	cfg.PerTransition = func(tx *bbolt.Tx, pre *explore.State, program []int, post *dump.Tree, m explore.Model) error {
		ctx := boltz.NewTxMutateContext(context.Background(), tx)
		for _, fix := range []bool{false, true} {
			reports, err := k.checkAll(ctx, fix)
			rep.Count("healthy_uncommitted_states_checked", 1)
			if err != nil {
				return fmt.Errorf("integrity check (fix=%v) inside the transaction that executed the operation failed: %v", fix, err)
			}
			if len(reports) > 0 {
				return fmt.Errorf("integrity check (fix=%v) run inside the transaction that executed the operation reports a healthy state as inconsistent: %q", fix, reports[0].msg)
			}
			if after := dump.Tx(tx); !c09Norm(post).Equal(c09Norm(after)) {
				return fmt.Errorf("integrity check (fix=%v) run inside the transaction changed a healthy database:\n%s", fix, dump.Diff(c09Norm(post), c09Norm(after)))
			}
		}
		return nil
	}
	runE1(rep, k, cfg)

	// ---- (b) corruption subsets
	atoms := c09Atoms()
	maxSubset := 2
	if thorough {
		maxSubset = 3
	}
	var subsets [][]int
	var gen func(start int, cur []int)
	gen = func(start int, cur []int) {
		subsets = append(subsets, append([]int{}, cur...))
		if len(cur) == maxSubset {
			return
		}
		for i := start; i < len(atoms); i++ {
			gen(i+1, append(cur, i))
		}
	}
	gen(0, nil)
	rep.Count("corruption_subsets", int64(len(subsets)))

	dir := explore.TmpDir("c09")
	defer os.RemoveAll(dir)
	type job struct {
		base   int
		subset []int
		sameTx bool
	}
	jobs := make(chan job, 64)
	var wg sync.WaitGroup
	basePaths := make([]string, len(c09Bases()))
	for bi, b := range c09Bases() {
		kk := newKitchen("c09", kFeat{orgs: true, places: true, pets: true})
		basePaths[bi] = fmt.Sprintf("%s/base%d.db", dir, bi)
		db, err := boltz.Open(basePaths[bi], "root")
		if err != nil {
			panic(err)
		}
		if err := kk.InitDb(db); err != nil {
			panic(err)
		}
		if err := db.Update(nil, func(ctx boltz.MutateContext) error { return b.build(kk, ctx) }); err != nil {
			panic(fmt.Sprintf("base %s: %v", b.name, err))
		}
		_ = db.Close()
	}
	var seq int64
	var seqMu sync.Mutex
	for wk := 0; wk < runtime.NumCPU(); wk++ {
		wg.Add(1)
		go func() {
			defer wg.Done()
			kk := newKitchen("c09", kFeat{orgs: true, places: true, pets: true})
			for j := range jobs {
				seqMu.Lock()
				seq++
				path := fmt.Sprintf("%s/w%d.db", dir, seq)
				seqMu.Unlock()
				c09Case(rep, kk, basePaths[j.base], path, c09Bases()[j.base].name, atoms, j.subset, j.sameTx)
				_ = os.Remove(path)
			}
		}()
	}
	for bi := range c09Bases() {
		for _, s := range subsets {
			jobs <- job{bi, s, false}
			jobs <- job{bi, s, true}
		}
	}
	close(jobs)
	wg.Wait()
	rep.Sample(map[string]interface{}{"base": c09Bases()[0].name, "corruptions": []string{atoms[2].name, atoms[8].name}})
	// ---- (c) foreign-key constraints (AddFkConstraint): their own checker
	c09FkConstraints(rep)
	return rep.Finish()
}

func c09Case(rep *report.Report, k *kitchen, basePath, path, baseName string, atoms []c09Atom, subset []int, sameTx bool) {
	if rep.TooMany() {
		return
	}
	if err := explore.CopyFile(basePath, path); err != nil {
		panic(err)
	}
	db, err := boltz.Open(path, "root")
	if err != nil {
		panic(err)
	}
	defer db.Close()
	var names []string
	for _, a := range subset {
		names = append(names, atoms[a].name)
	}
	label := fmt.Sprintf("base[%s] corruptions%v sameTx=%v", baseName, names, sameTx)
	sigBase := fmt.Sprintf("%v|sameTx=%v", names, sameTx)
	replay := map[string]interface{}{"base": baseName, "corruptions": names, "same_tx": sameTx}
	corrupt := func(tx *bbolt.Tx) error {
		for _, a := range subset {
			if err := atoms[a].apply(tx); err != nil {
				return err
			}
		}
		return nil
	}
	snap := func() *dump.Tree {
		var t *dump.Tree
		_ = db.View(func(tx *bbolt.Tx) error { t = dump.Tx(tx); return nil })
		return t
	}
	rep.Count("transitions", 1)
	rep.Count("traces_validated_against_impl", 1)
	rep.Count("corruption_cases", 1)
	var corrupted *dump.Tree
	if !sameTx {
		if err := db.Update(nil, func(ctx boltz.MutateContext) error { return corrupt(ctx.Tx()) }); err != nil {
			rep.Violation("C09|harness|"+sigBase, "cannot apply corruption: "+err.Error(), replay)
			return
		}
		corrupted = snap()
		// check-only
		var reports []c09Report
		err := db.Update(nil, func(ctx boltz.MutateContext) error {
			var err error
			reports, err = k.checkAll(ctx, false)
			return err
		})
		after := snap()
		wantItems, _ := refIntegrity(corrupted, false)
		switch {
		case err != nil:
			rep.Violation("C09|check-only-error|"+sigBase, label+": check-only run failed: "+err.Error(), replay)
		case !c09Norm(after).Equal(c09Norm(corrupted)):
			// empty link buckets that reading the links creates as a side effect carry no content and are
			// not observable through any API; every other difference (index keys included) counts
			rep.Violation("C09|check-only-modified-database|"+sigBase, label+": check-only run changed the database:\n"+dump.Diff(c09Norm(corrupted), c09Norm(after)), replay)
		default:
			if len(wantItems) == 0 && len(reports) > 0 {
				rep.Violation("C09|false-report|"+sigBase, label+": nothing is inconsistent but the check reported "+reports[0].msg, replay)
			}
			if p := matchItems(wantItems, reports, false); p != "" {
				rep.Violation("C09|check-only-incomplete|"+sigBase+"|"+p, label+": "+p+fmt.Sprintf("\nreports: %v", reports), replay)
			}
		}
		for _, it := range wantItems {
			rep.Outcome(it.kind)
		}
		if !c09Norm(after).Equal(c09Norm(corrupted)) {
			return
		}
		corrupted = after
	}
	// fix run (optionally with the corruption in the same transaction)
	var reports []c09Report
	err = db.Update(nil, func(ctx boltz.MutateContext) error {
		if sameTx {
			if err := corrupt(ctx.Tx()); err != nil {
				return err
			}
			corrupted = dump.Tx(ctx.Tx())
		}
		var err error
		reports, err = k.checkAll(ctx, true)
		return err
	})
	if err != nil {
		rep.Violation("C09|fix-error|"+sigBase, label+": fix run failed: "+err.Error(), replay)
		return
	}
	wantItems, wantTree := refIntegrity(corrupted, true)
	if p := matchItems(wantItems, reports, true); p != "" {
		rep.Violation("C09|fix-incomplete|"+sigBase+"|"+p, label+": "+p+fmt.Sprintf("\nreports: %v", reports), replay)
	}
	fixedTree := snap()
	if got, want := c09Norm(fixedTree), c09Norm(wantTree); !got.Equal(want) {
		rep.Violation("C09|fix-result|"+sigBase, label+": database after fix differs from the reference repair (- impl, + reference):\n"+dump.Diff(got, want), replay)
		return
	}
	// immediate re-check: only the unfixable conflicts may remain, and nothing changes any more
	var again []c09Report
	err = db.Update(nil, func(ctx boltz.MutateContext) error {
		var err error
		again, err = k.checkAll(ctx, true)
		return err
	})
	remaining, _ := refIntegrity(fixedTree, false)
	if err != nil {
		rep.Violation("C09|recheck-error|"+sigBase, label+": re-check failed: "+err.Error(), replay)
		return
	}
	for _, it := range remaining {
		if it.fixable {
			rep.Violation("C09|not-convergent|"+sigBase, label+fmt.Sprintf(": after one fix run a repairable inconsistency remains: %s %v", it.kind, it.needles), replay)
			return
		}
	}
	for _, r := range again {
		if r.fixed {
			rep.Violation("C09|not-convergent|"+sigBase, label+": the re-check still fixed something: "+r.msg, replay)
			return
		}
	}
	if len(remaining) == 0 && len(again) > 0 {
		rep.Violation("C09|recheck-false-report|"+sigBase, label+": re-check of the repaired database reported "+again[0].msg, replay)
	}
	if p := matchItems(remaining, again, true); p != "" {
		rep.Violation("C09|recheck-incomplete|"+sigBase+"|"+p, label+": re-check: "+p, replay)
	}
	if !c09Norm(snap()).Equal(c09Norm(fixedTree)) {
		rep.Violation("C09|recheck-modified-database|"+sigBase, label+": the re-check changed the repaired database", replay)
	}
}
