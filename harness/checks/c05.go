package checks

import (
	"errors"
	"fmt"
	"github.com/openziti/storage/ast"
	"os"
	"sort"
	"strings"

	"github.com/openziti/foundation/v2/errorz"
	"github.com/openziti/storage/boltz"
	"go.etcd.io/bbolt"
	"verif/dump"
	"verif/explore"
	"verif/report"
	"verif/world"
)

// ---------------------------------------------------------------------------------------------
// C05 — link collections stay symmetric; ref-counted links agree on both sides.

type linkModel struct {
	rcPathA, rcPathB []string // where the two sides of the ref-counted collection are stored below the entity bucket
	as, bs           map[string]bool
	links            map[[2]string]bool // (a,b)
	rc               map[[2]string]int  // (a,b) -> count >= 1
}

func (m *linkModel) Clone() explore.Model {
	n := &linkModel{rcPathA: m.rcPathA, rcPathB: m.rcPathB, as: map[string]bool{}, bs: map[string]bool{}, links: map[[2]string]bool{}, rc: map[[2]string]int{}}
	for k := range m.as {
		n.as[k] = true
	}
	for k := range m.bs {
		n.bs[k] = true
	}
	for k := range m.links {
		n.links[k] = true
	}
	for k, v := range m.rc {
		n.rc[k] = v
	}
	return n
}

func (m *linkModel) Render() *dump.Tree {
	t := dump.NewTree()
	for a := range m.as {
		t.Ensure("root", "as", a).Values["label"] = world.EncString("L")
	}
	for b := range m.bs {
		t.Ensure("root", "bs", b).Values["label"] = world.EncString("L")
	}
	for k := range m.links {
		t.Ensure("root", "as", k[0], "bs").Values[world.TypedKey(k[1])] = []byte{}
		t.Ensure("root", "bs", k[1], "as").Values[world.TypedKey(k[0])] = []byte{}
	}
	for k, c := range m.rc {
		t.Ensure(append([]string{"root", "as", k[0]}, m.rcPathA...)...).Values[world.TypedKey(k[1])] = world.EncInt32(int32(c))
		t.Ensure(append([]string{"root", "bs", k[1]}, m.rcPathB...)...).Values[world.TypedKey(k[0])] = world.EncInt32(int32(c))
	}
	return t
}

type linkScenario struct {
	label    string
	A, B     *world.Store
	la, lb   boltz.LinkCollection
	ra, rb   boltz.RefCountedLinkCollection
	rcPathA  []string
	rcPathB  []string
	aIds     []string
	bIds     []string
	withLink bool
	withRc   bool
	maxCount int
	ops      []explore.Op
}

var errSkip = errors.New("verif-skip: operation outside the bounded universe")
var errRet = errors.New("verif-return-mismatch")

func newLinkWorld() *linkScenario { return newLinkWorldOpt(true) }

// newLinkWorldOpt: with plain=false the two stores own NO plain link collection, only the ref-counted one.
func newLinkWorldOpt(plain bool) *linkScenario {
	sc := &linkScenario{}
	// the field `bs` is the link collection seen from the entity: persisting it goes through PersistContext.SetLinkedIds
	aFields := []world.Field{{Name: "label", Kind: world.KString}}
	if plain {
		aFields = append(aFields, world.Field{Name: "bs", Kind: world.KLinks})
	}
	sc.A = world.NewStore(&world.Spec{EntityType: "as", BasePath: []string{"root"}, Fields: aFields})
	sc.B = world.NewStore(&world.Spec{EntityType: "bs", BasePath: []string{"root"}, Fields: []world.Field{{Name: "label", Kind: world.KString}}})
	sc.A.AddScalarSymbols()
	sc.B.AddScalarSymbols()
	if plain {
		symAB := sc.A.AddFkSetSymbol("bs", sc.B)
		symBA := sc.B.AddFkSetSymbol("as", sc.A)
		sc.la = sc.A.AddLinkCollection(symAB, symBA)
		sc.lb = sc.B.AddLinkCollection(symBA, symAB)
	}
	var symRAB, symRBA boltz.EntitySymbol
	if plain {
		symRAB, symRBA = sc.A.AddFkSetSymbol("rbs", sc.B), sc.B.AddFkSetSymbol("ras", sc.A)
		sc.rcPathA, sc.rcPathB = []string{"rbs"}, []string{"ras"}
	} else {
		// the two sides are ordinary symbols: one stored under another key, the other below a sub-bucket
		symRAB = sc.A.AddSymbolWithKey("rbs", ast.NodeTypeString, "rbsKey")
		symRBA = sc.B.AddSymbol("ras", ast.NodeTypeString, "refs")
		sc.rcPathA, sc.rcPathB = []string{"rbsKey"}, []string{"refs", "ras"}
	}
	sc.ra = sc.A.AddRefCountedLinkCollection(symRAB, symRBA)
	sc.rb = sc.B.AddRefCountedLinkCollection(symRBA, symRAB)
	return sc
}

func newLinkScenario(label string, aIds, bIds []string, withLink, withRc bool, maxCount int) *linkScenario {
	sc := newLinkWorld()
	sc.label, sc.aIds, sc.bIds, sc.withLink, sc.withRc, sc.maxCount = label, aIds, bIds, withLink, withRc, maxCount
	sc.buildOps()
	return sc
}

// newRcOnlyScenario: stores whose only link collection is the ref-counted one.
func newRcOnlyScenario(label string, aIds, bIds []string, maxCount int) *linkScenario {
	sc := newLinkWorldOpt(false)
	sc.label, sc.aIds, sc.bIds, sc.withLink, sc.withRc, sc.maxCount = label, aIds, bIds, false, true, maxCount
	sc.buildOps()
	return sc
}

func (sc *linkScenario) Name() string { return "S_link[" + sc.label + "]" }
func (sc *linkScenario) InitDb(db *boltz.DbImpl) error {
	return db.Update(nil, func(ctx boltz.MutateContext) error {
		h := &errorz.ErrorHolderImpl{}
		sc.A.InitializeIndexes(ctx.Tx(), h)
		sc.B.InitializeIndexes(ctx.Tx(), h)
		return h.GetError()
	})
}
func (sc *linkScenario) NewModel() explore.Model {
	return &linkModel{rcPathA: sc.rcPathA, rcPathB: sc.rcPathB, as: map[string]bool{}, bs: map[string]bool{}, links: map[[2]string]bool{}, rc: map[[2]string]int{}}
}
func (sc *linkScenario) Ops() []explore.Op                   { return sc.ops }
func (sc *linkScenario) Context(_ []int) boltz.MutateContext { return explore.OrdinaryContext() }
func (sc *linkScenario) Classify(err error) string {
	if errors.Is(err, errSkip) {
		return "skip"
	}
	if errors.Is(err, errRet) {
		return "return-mismatch:" + err.Error()
	}
	return classifyCommon(err)
}
func (sc *linkScenario) Normalize(t *dump.Tree) *dump.Tree {
	return t.PruneEmpty(func([]string) bool { return false })
}

// side abstracts "from A" / "from B".
type linkSide struct {
	name    string
	store   *world.Store
	lc      boltz.LinkCollection
	rc      boltz.RefCountedLinkCollection
	ids     []string
	others  []string
	present func(m *linkModel, id string) bool
	otherOk func(m *linkModel, id string) bool
	key     func(id, other string) [2]string
}

func (sc *linkScenario) sides() []linkSide {
	return []linkSide{
		{"A", sc.A, sc.la, sc.ra, sc.aIds, sc.bIds,
			func(m *linkModel, id string) bool { return m.as[id] }, func(m *linkModel, id string) bool { return m.bs[id] },
			func(id, o string) [2]string { return [2]string{id, o} }},
		{"B", sc.B, sc.lb, sc.rb, sc.bIds, sc.aIds,
			func(m *linkModel, id string) bool { return m.bs[id] }, func(m *linkModel, id string) bool { return m.as[id] },
			func(id, o string) [2]string { return [2]string{o, id} }},
	}
}

func (sc *linkScenario) buildOps() {
	const missing = "zz-missing"
	for _, sd := range sc.sides() {
		sd := sd
		typ := sd.store.GetEntityType()
		for _, id := range sd.ids {
			id := id
			sc.ops = append(sc.ops, explore.Op{
				Name: fmt.Sprintf("create%s(%s)", sd.name, id),
				Do: func(ctx boltz.MutateContext) error {
					return sd.store.Create(ctx, world.NewRec(typ, id).With("label", "L"))
				},
				Apply: func(mm explore.Model) []string {
					m := mm.(*linkModel)
					if sd.present(m, id) {
						return []string{"exists"}
					}
					if sd.name == "A" {
						m.as[id] = true
					} else {
						m.bs[id] = true
					}
					return []string{"ok"}
				},
			}, explore.Op{
				Name: fmt.Sprintf("delete%s(%s)", sd.name, id),
				Do:   func(ctx boltz.MutateContext) error { return sd.store.DeleteById(ctx, id) },
				Apply: func(mm explore.Model) []string {
					m := mm.(*linkModel)
					if !sd.present(m, id) {
						return []string{"notfound"}
					}
					if sd.name == "A" {
						delete(m.as, id)
					} else {
						delete(m.bs, id)
					}
					for k := range m.links {
						if sd.key(id, k[1]) == k || sd.key(id, k[0]) == k {
							delete(m.links, k)
						}
					}
					for k := range m.rc {
						if sd.key(id, k[1]) == k || sd.key(id, k[0]) == k {
							delete(m.rc, k)
						}
					}
					return []string{"ok"}
				},
			})
			others := append(append([]string{}, sd.others...), missing)
			if sc.withLink {
				// key lists: every single key, plus one two-key list and one list with a duplicate
				var lists [][]string
				for _, o := range others {
					lists = append(lists, []string{o})
				}
				lists = append(lists, []string{sd.others[1], sd.others[0]}, []string{sd.others[0], sd.others[0]}, []string{sd.others[0], missing})
				for _, keys := range lists {
					keys := keys
					allExist := func(m *linkModel) bool {
						for _, k := range keys {
							if !sd.otherOk(m, k) {
								return false
							}
						}
						return true
					}
					sc.ops = append(sc.ops, explore.Op{
						Name: fmt.Sprintf("%s.AddLinks(%s,%v)", sd.name, id, keys),
						Do:   func(ctx boltz.MutateContext) error { return sd.lc.AddLinks(ctx.Tx(), id, keys...) },
						Apply: func(mm explore.Model) []string {
							m := mm.(*linkModel)
							if !sd.present(m, id) || !allExist(m) {
								return []string{"notfound"}
							}
							for _, k := range keys {
								m.links[sd.key(id, k)] = true
							}
							return []string{"ok"}
						},
					}, explore.Op{
						Name: fmt.Sprintf("%s.RemoveLinks(%s,%v)", sd.name, id, keys),
						Do:   func(ctx boltz.MutateContext) error { return sd.lc.RemoveLinks(ctx.Tx(), id, keys...) },
						Apply: func(mm explore.Model) []string {
							m := mm.(*linkModel)
							if !sd.present(m, id) {
								return []string{"notfound"}
							}
							for _, k := range keys {
								delete(m.links, sd.key(id, k))
							}
							return []string{"ok"}
						},
					})
					if sd.name == "A" {
						// the same through the entity: Update with the links field (full update, patch selecting it, patch not selecting it)
						for _, chk := range []string{"", "bs", "label"} {
							chk := chk
							var checker boltz.FieldChecker
							if chk != "" {
								checker = boltz.MapFieldChecker{chk: struct{}{}}
							}
							sc.ops = append(sc.ops, explore.Op{
								Name: fmt.Sprintf("A.Update(%s,links=%v)[checker=%s]", id, keys, chk),
								Do: func(ctx boltz.MutateContext) error {
									return sc.A.Update(ctx, world.NewRec("as", id).With("label", "L").With("bs", append([]string{}, keys...)), checker)
								},
								Apply: func(mm explore.Model) []string {
									m := mm.(*linkModel)
									if !sd.present(m, id) {
										return []string{"notfound"}
									}
									if chk == "label" {
										return []string{"ok"}
									}
									if !allExist(m) {
										return []string{"notfound"}
									}
									for _, o := range sd.others {
										delete(m.links, sd.key(id, o))
									}
									for _, k := range keys {
										m.links[sd.key(id, k)] = true
									}
									return []string{"ok"}
								},
							})
						}
					}
					sc.ops = append(sc.ops, explore.Op{
						Name: fmt.Sprintf("%s.SetLinks(%s,%v)", sd.name, id, keys),
						Do: func(ctx boltz.MutateContext) error {
							return sd.lc.SetLinks(ctx.Tx(), id, append([]string{}, keys...))
						},
						Apply: func(mm explore.Model) []string {
							m := mm.(*linkModel)
							if !sd.present(m, id) || !allExist(m) {
								return []string{"notfound"}
							}
							for _, o := range sd.others {
								delete(m.links, sd.key(id, o))
							}
							for _, k := range keys {
								m.links[sd.key(id, k)] = true
							}
							return []string{"ok"}
						},
					})
				}
				sc.ops = append(sc.ops, explore.Op{
					Name: fmt.Sprintf("%s.SetLinks(%s,[])", sd.name, id),
					Do:   func(ctx boltz.MutateContext) error { return sd.lc.SetLinks(ctx.Tx(), id, nil) },
					Apply: func(mm explore.Model) []string {
						m := mm.(*linkModel)
						if !sd.present(m, id) {
							return []string{"notfound"}
						}
						for _, o := range sd.others {
							delete(m.links, sd.key(id, o))
						}
						return []string{"ok"}
					},
				})
				for _, o := range others {
					o := o
					sc.ops = append(sc.ops, explore.Op{
						Name: fmt.Sprintf("%s.AddLink(%s,%s)", sd.name, id, o),
						Do: func(ctx boltz.MutateContext) error {
							was := sd.lc.IsLinked(ctx.Tx(), []byte(id), []byte(o))
							changed, err := sd.lc.AddLink(ctx.Tx(), []byte(id), []byte(o))
							if err == nil && changed == was {
								return fmt.Errorf("%w: AddLink returned changed=%v although linked-before=%v", errRet, changed, was)
							}
							return err
						},
						Apply: func(mm explore.Model) []string {
							m := mm.(*linkModel)
							if !sd.present(m, id) || !sd.otherOk(m, o) {
								return []string{"notfound"}
							}
							m.links[sd.key(id, o)] = true
							return []string{"ok"}
						},
					}, explore.Op{
						Name: fmt.Sprintf("%s.RemoveLink(%s,%s)", sd.name, id, o),
						Do: func(ctx boltz.MutateContext) error {
							was := sd.lc.IsLinked(ctx.Tx(), []byte(id), []byte(o))
							changed, err := sd.lc.RemoveLink(ctx.Tx(), []byte(id), []byte(o))
							if err == nil && changed != was {
								return fmt.Errorf("%w: RemoveLink returned changed=%v although linked-before=%v", errRet, changed, was)
							}
							return err
						},
						Apply: func(mm explore.Model) []string {
							m := mm.(*linkModel)
							if !sd.present(m, id) {
								return []string{"notfound"}
							}
							delete(m.links, sd.key(id, o))
							return []string{"ok"}
						},
					})
				}
			}
			if sc.withRc {
				for _, o := range others {
					o := o
					sc.ops = append(sc.ops, explore.Op{
						Name: fmt.Sprintf("%s.Increment(%s,%s)", sd.name, id, o),
						Do: func(ctx boltz.MutateContext) error {
							cur := 0
							if c, _ := sd.rc.GetLinkCounts(ctx.Tx(), []byte(id), []byte(o)); c != nil {
								cur = int(*c)
							}
							if cur >= sc.maxCount {
								return errSkip
							}
							got, err := sd.rc.IncrementLinkCount(ctx.Tx(), []byte(id), []byte(o))
							if err == nil && got != cur+1 {
								return fmt.Errorf("%w: IncrementLinkCount returned %d, previous count %d", errRet, got, cur)
							}
							return err
						},
						Apply: func(mm explore.Model) []string {
							m := mm.(*linkModel)
							if !sd.present(m, id) {
								return []string{"notfound"}
							}
							if m.rc[sd.key(id, o)] >= sc.maxCount {
								return []string{"skip"}
							}
							if !sd.otherOk(m, o) {
								return []string{"notfound"}
							}
							m.rc[sd.key(id, o)]++
							return []string{"ok"}
						},
					}, explore.Op{
						Name: fmt.Sprintf("%s.Decrement(%s,%s)", sd.name, id, o),
						Do: func(ctx boltz.MutateContext) error {
							cur := 0
							if c, _ := sd.rc.GetLinkCounts(ctx.Tx(), []byte(id), []byte(o)); c != nil {
								cur = int(*c)
							}
							got, err := sd.rc.DecrementLinkCount(ctx.Tx(), []byte(id), []byte(o))
							want := cur - 1
							if cur == 0 {
								want = -1
							}
							if err == nil && got != want {
								return fmt.Errorf("%w: DecrementLinkCount returned %d, previous count %d", errRet, got, cur)
							}
							return err
						},
						Apply: func(mm explore.Model) []string {
							m := mm.(*linkModel)
							if !sd.present(m, id) {
								return []string{"notfound"}
							}
							k := sd.key(id, o)
							if m.rc[k] > 1 {
								m.rc[k]--
							} else {
								delete(m.rc, k)
							}
							return []string{"ok"}
						},
					})
					for n := 0; n <= sc.maxCount; n++ {
						n := n
						sc.ops = append(sc.ops, explore.Op{
							Name: fmt.Sprintf("%s.SetLinkCount(%s,%s,%d)", sd.name, id, o, n),
							Do: func(ctx boltz.MutateContext) error {
								c1, c2 := sd.rc.GetLinkCounts(ctx.Tx(), []byte(id), []byte(o))
								o1, o2, err := sd.rc.SetLinkCount(ctx.Tx(), []byte(id), []byte(o), n)
								if err == nil && (i32s(o1) != i32s(c1) || i32s(o2) != i32s(c2)) {
									return fmt.Errorf("%w: SetLinkCount returned old counts (%s,%s), stored were (%s,%s)", errRet, i32s(o1), i32s(o2), i32s(c1), i32s(c2))
								}
								return err
							},
							Apply: func(mm explore.Model) []string {
								m := mm.(*linkModel)
								if !sd.present(m, id) || !sd.otherOk(m, o) {
									return []string{"notfound"}
								}
								k := sd.key(id, o)
								if n == 0 {
									delete(m.rc, k)
								} else {
									m.rc[k] = n
								}
								return []string{"ok"}
							},
						})
					}
				}
			}
		}
	}
}

func i32s(p *int32) string {
	if p == nil {
		return "nil"
	}
	return fmt.Sprint(*p)
}

func (sc *linkScenario) Invariant(tx *bbolt.Tx, mm explore.Model) error {
	m := mm.(*linkModel)
	for _, sd := range sc.sides() {
		for _, id := range sd.ids {
			if !sd.present(m, id) {
				continue
			}
			var want []string
			for _, o := range sd.others {
				if m.links[sd.key(id, o)] {
					want = append(want, o)
				}
			}
			sort.Strings(want)
			if sd.lc != nil {
				got := sd.lc.GetLinks(tx, id)
				if strings.Join(got, ",") != strings.Join(want, ",") {
					return fmt.Errorf("%s.GetLinks(%s) = %v, model says %v", sd.name, id, got, want)
				}
				var it []string
				for c := sd.lc.IterateLinks(tx, []byte(id)); c.IsValid(); c.Next() {
					it = append(it, string(c.Current()))
				}
				if strings.Join(it, ",") != strings.Join(want, ",") {
					return fmt.Errorf("%s.IterateLinks(%s) = %q, model says %v", sd.name, id, it, want)
				}
			}
			for _, o := range append(append([]string{}, sd.others...), "zz-missing") {
				wl := m.links[sd.key(id, o)]
				if sd.lc != nil {
					if gl := sd.lc.IsLinked(tx, []byte(id), []byte(o)); gl != wl {
						return fmt.Errorf("%s.IsLinked(%s,%s) = %v, model says %v", sd.name, id, o, gl, wl)
					}
					// the same through the store's generic related-entity API
					linkField := map[string]string{"A": "bs", "B": "as"}[sd.name]
					if gl := sd.store.IsEntityRelated(tx, id, linkField, o); gl != wl {
						return fmt.Errorf("%s store.IsEntityRelated(%s,%s,%s) = %v, model says %v", sd.name, id, linkField, o, gl, wl)
					}
					if rel := sd.store.GetRelatedEntitiesIdList(tx, id, linkField); strings.Join(rel, ",") != strings.Join(want, ",") {
						return fmt.Errorf("%s store.GetRelatedEntitiesIdList(%s,%s) = %v, model says %v", sd.name, id, linkField, rel, want)
					}
				}
				wc := m.rc[sd.key(id, o)]
				c1, c2 := sd.rc.GetLinkCounts(tx, []byte(id), []byte(o))
				ws := "nil"
				if wc > 0 {
					ws = fmt.Sprint(wc)
				}
				if single := sd.rc.GetLinkCount(tx, []byte(id), []byte(o)); i32s(single) != ws {
					return fmt.Errorf("%s.GetLinkCount(%s,%s) = %s, model says %s", sd.name, id, o, i32s(single), ws)
				}
				if i32s(c1) != ws || i32s(c2) != ws {
					return fmt.Errorf("%s.GetLinkCounts(%s,%s) = (%s,%s), model says %s on both sides", sd.name, id, o, i32s(c1), i32s(c2), ws)
				}
			}
			var wantRc []string
			for _, o := range sd.others {
				if m.rc[sd.key(id, o)] > 0 {
					wantRc = append(wantRc, o)
				}
			}
			sort.Strings(wantRc)
			for _, fwd := range []bool{true, false} {
				var itRc []string
				for c := sd.rc.IterateLinks(tx, []byte(id), fwd); c.IsValid(); c.Next() {
					itRc = append(itRc, string(c.Current()))
				}
				w := append([]string{}, wantRc...)
				if !fwd {
					sort.Sort(sort.Reverse(sort.StringSlice(w)))
				}
				if strings.Join(itRc, ",") != strings.Join(w, ",") {
					return fmt.Errorf("%s.rc.IterateLinks(%s,forward=%v) = %q, model says %v", sd.name, id, fwd, itRc, w)
				}
			}
		}
	}
	return nil
}

// setLinksExhaustive: every current link set x every requested key list (unsorted, duplicates, missing id).
func setLinksExhaustive(rep *report.Report, maxLen int) {
	sc := newLinkWorld()
	dir := explore.TmpDir("setlinks")
	defer removeAll(dir)
	db, err := boltz.Open(dir+"/s.db", "root")
	if err != nil {
		panic(err)
	}
	defer db.Close()
	bIds := []string{"b1", "b1x", "b3", "b3y"}
	err = db.Update(nil, func(ctx boltz.MutateContext) error {
		if err := sc.A.Create(ctx, world.NewRec("as", "a1").With("label", "L")); err != nil {
			return err
		}
		if err := sc.A.Create(ctx, world.NewRec("as", "a2").With("label", "L")); err != nil {
			return err
		}
		for _, b := range bIds {
			if err := sc.B.Create(ctx, world.NewRec("bs", b).With("label", "L")); err != nil {
				return err
			}
		}
		// a2 is linked to everything and must never be disturbed
		return sc.la.AddLinks(ctx.Tx(), "a2", bIds...)
	})
	if err != nil {
		panic(err)
	}
	alphabet := append(append([]string{}, bIds...), "zz-missing")
	var lists [][]string
	var gen func(cur []string)
	gen = func(cur []string) {
		lists = append(lists, append([]string{}, cur...))
		if len(cur) == maxLen {
			return
		}
		for _, x := range alphabet {
			gen(append(cur, x))
		}
	}
	gen(nil)
	for mask := 0; mask < 16; mask++ {
		var current []string
		for i, b := range bIds {
			if mask&(1<<i) != 0 {
				current = append(current, b)
			}
		}
		for _, req := range lists {
			rep.Count("setlinks_pairs", 1)
			hasMissing := false
			want := map[string]bool{}
			for _, k := range req {
				if k == "zz-missing" {
					hasMissing = true
				}
				want[k] = true
			}
			var got, gotRev map[string][]string
			var opErr error
			_ = db.Update(nil, func(ctx boltz.MutateContext) error {
				if err := sc.la.AddLinks(ctx.Tx(), "a1", current...); err != nil {
					panic(err)
				}
				opErr = sc.la.SetLinks(ctx.Tx(), "a1", append([]string{}, req...))
				got = map[string][]string{"a1": sc.la.GetLinks(ctx.Tx(), "a1"), "a2": sc.la.GetLinks(ctx.Tx(), "a2")}
				gotRev = map[string][]string{}
				for _, b := range bIds {
					gotRev[b] = sc.lb.GetLinks(ctx.Tx(), b)
				}
				return errSkip
			})
			sig := fmt.Sprintf("SetLinks|current=%v|requested=%v", current, req)
			if hasMissing {
				if opErr == nil {
					rep.Violation(sig+"|no-error", "SetLinks naming a missing entity succeeded", map[string]interface{}{"current": current, "requested": req})
				}
				rep.Outcome("setlinks-rejected")
				continue
			}
			rep.Outcome("setlinks-ok")
			if opErr != nil {
				rep.Violation(sig+"|error", "SetLinks failed: "+opErr.Error(), map[string]interface{}{"current": current, "requested": req})
				continue
			}
			var wantList []string
			for k := range want {
				wantList = append(wantList, k)
			}
			sort.Strings(wantList)
			bad := ""
			if strings.Join(got["a1"], ",") != strings.Join(wantList, ",") {
				bad = fmt.Sprintf("links(a1) = %v, want %v", got["a1"], wantList)
			}
			if strings.Join(got["a2"], ",") != strings.Join(bIds, ",") {
				bad = fmt.Sprintf("links(a2) disturbed: %v", got["a2"])
			}
			for _, b := range bIds {
				w := []string{}
				if want[b] {
					w = append(w, "a1")
				}
				w = append(w, "a2")
				if strings.Join(gotRev[b], ",") != strings.Join(w, ",") {
					bad = fmt.Sprintf("reverse links(%s) = %v, want %v", b, gotRev[b], w)
				}
			}
			if bad != "" {
				rep.Violation(sig+"|wrong-result", bad, map[string]interface{}{"current": current, "requested": req})
			}
		}
	}
	rep.Sample(map[string]interface{}{"setlinks_current": []string{"b1", "b3"}, "requested": []string{"b4", "b1", "b1", "b2"}})
}

func C05(tier string) int {
	rep := report.New("C05", tier, "model_checking")
	rep.Assume("bbolt transactions are atomic and isolated (trusted base)")
	rep.Assume("universe: 2 entities per side (3 on one side in thorough), counts 0..2 (0..3 thorough); negative counts are outside the property's domain")
	rep.Set("rule", "BFS to closure with one operation per transaction and with two operations per transaction (quick: core pairs + pivots; thorough: all ordered pairs); oracle = complete image from reference model (both link directions, both counts), API reads from both sides, return values; SetLinks: all (current set, requested list) pairs")
	a2, b2 := []string{"a1", "a1x"}, []string{"b1", "b1x"} // one id is a prefix of the other on purpose
	run := func(sc *linkScenario, maxTrans int64) {
		runE1(rep, sc, explore.Config{Programs: explore.SingleOps(len(sc.Ops())), MaxTrans: maxTrans})
	}
	if tier == "quick" {
		run(newLinkScenario("links 2x2", a2, b2, true, false, 0), 0)
		run(newLinkScenario("ref-counted 2x2 counts<=2", a2, b2, false, true, 2), 0)
		run(newRcOnlyScenario("ref-counted 2x2 counts<=2, stores without any plain link collection", a2, b2, 2), 0)
		// two operations in ONE transaction (the second sees the first one's uncommitted writes)
		for _, sc := range []*linkScenario{newLinkScenario("links 2x2, 2 ops per tx", a2, b2, true, false, 0), newLinkScenario("ref-counted 2x2 counts<=2, 2 ops per tx", a2, b2, false, true, 2)} {
			runE1(rep, sc, explore.Config{Programs: c05PairPrograms(sc.Ops()), SkipRejectedPrefix: true})
		}
		// three entities on one side (an entry in the middle of a link bucket; delete with three links)
		run(newLinkScenario("links 2x3", a2, []string{"b1", "b1x", "b2"}, true, false, 0), 0)
		setLinksExhaustive(rep, 3)
		c05ChildOwned(rep)
		c05HugeIds(rep)
	} else {
		c05ChildOwned(rep)
		c05HugeIds(rep)
		run(newLinkScenario("links 2x3", a2, []string{"b1", "b1x", "b2"}, true, false, 0), 0)
		run(newLinkScenario("ref-counted 2x2 counts<=3", a2, b2, false, true, 3), 0)
		run(newRcOnlyScenario("ref-counted 2x2 counts<=3, stores without any plain link collection", a2, b2, 3), 0)
		run(newLinkScenario("links+ref-counted 2x2 counts<=2", a2, b2, true, true, 2), 12_000_000)
		for _, sc := range []*linkScenario{newLinkScenario("links 2x2, 2 ops per tx (all pairs)", a2, b2, true, false, 0), newLinkScenario("ref-counted 2x2 counts<=2, 2 ops per tx (all pairs)", a2, b2, false, true, 2)} {
			runE1(rep, sc, explore.Config{Programs: explore.Pairs(len(sc.Ops())), SkipRejectedPrefix: true})
		}
		setLinksExhaustive(rep, 4)
	}
	return rep.Finish()
}

// c05PairPrograms: all ordered pairs over the single-link core (create/delete, AddLink/RemoveLink,
// Increment/Decrement), plus every operation before and after each of seven pivot operations.
func c05PairPrograms(ops []explore.Op) [][]int {
	var core, pivots []int
	for i, o := range ops {
		n := o.Name
		for _, p := range []string{"create", "delete", "A.AddLink(", "B.AddLink(", "A.RemoveLink(", "B.RemoveLink(", "A.Increment(", "B.Increment(", "A.Decrement(", "B.Decrement("} {
			if strings.HasPrefix(n, p) {
				core = append(core, i)
				break
			}
		}
		switch n {
		case "createA(a1)", "createB(b1)", "deleteA(a1)", "deleteB(b1)", "A.AddLink(a1,b1)", "B.AddLink(b1,a1)", "A.RemoveLink(a1,b1)", "A.Increment(a1,b1)", "B.Increment(b1,a1)", "A.Decrement(a1,b1)":
			pivots = append(pivots, i)
		}
	}
	seen := map[[2]int]bool{}
	var out [][]int
	add := func(a, b int) {
		if !seen[[2]int{a, b}] {
			seen[[2]int{a, b}] = true
			out = append(out, []int{a, b})
		}
	}
	for _, a := range core {
		for _, b := range core {
			add(a, b)
		}
	}
	for _, p := range pivots {
		for x := range ops {
			add(p, x)
			add(x, p)
		}
	}
	return out
}

// c05ChildOwned: link collections whose owner is a child store (and, next to it, one owned by the parent) -
// creates and deletes through parent, plain child and extended child store, links added from the owning side and
// removed from the other side; closure over that sub-alphabet of the kitchen-sink scenario.
func c05ChildOwned(rep *report.Report) {
	k := newKitchen("link collection owned by a child store", kFeat{places: true, childLinks: true, extFirst: true})
	var progs [][]int
	for i, o := range k.Ops() {
		n := o.Name
		switch {
		case strings.HasPrefix(n, "create@") && strings.Contains(n, "roles=[],org=null") && !strings.Contains(n, "name=,"):
		case strings.HasPrefix(n, "delete@"), strings.HasPrefix(n, "createPlace("), strings.HasPrefix(n, "deletePlace("):
		case strings.HasPrefix(n, "people.AddLinks("), strings.HasPrefix(n, "places.RemoveLinks("), strings.HasPrefix(n, "mgr.AddLinks("), strings.HasPrefix(n, "places.RemoveMgrLinks("):
		default:
			continue
		}
		progs = append(progs, []int{i})
	}
	rep.Set("child_owned_link_alphabet", len(progs))
	runE1(rep, k, explore.Config{Programs: progs})
}

// c05HugeIds: an entity whose id is as long as a bucket name may be (bbolt's maximum key size) cannot be written as a
// link entry on the other side (the entry carries a type tag in front of the id). Whatever the collection answers,
// the committed outcome must be symmetric: every operation runs in its own transaction that commits exactly when
// the operation reported success.
func c05HugeIds(rep *report.Report) {
	dir := explore.TmpDir("c05huge")
	defer os.RemoveAll(dir)
	for _, size := range []int{bbolt.MaxKeySize - 1, bbolt.MaxKeySize} {
		sc := newLinkWorld()
		db, err := boltz.Open(fmt.Sprintf("%s/huge-%d.db", dir, size), "root")
		if err != nil {
			panic(err)
		}
		if err := sc.InitDb(db); err != nil {
			panic(err)
		}
		hugeA, hugeB := strings.Repeat("a", size), strings.Repeat("b", size)
		if err := db.Update(nil, func(ctx boltz.MutateContext) error {
			for _, id := range []string{hugeA, "a1"} {
				if err := sc.A.Create(ctx, newLinkRec("as", id)); err != nil {
					return err
				}
			}
			for _, id := range []string{hugeB, "b1"} {
				if err := sc.B.Create(ctx, newLinkRec("bs", id)); err != nil {
					return err
				}
			}
			return nil
		}); err != nil {
			panic(fmt.Sprintf("C05 harness: entities with ids of %d bytes cannot be created: %v", size, err))
		}
		ops := []struct {
			name string
			do   func(tx *bbolt.Tx) error
		}{
			{"A.AddLinks(huge,[b1])", func(tx *bbolt.Tx) error { return sc.la.AddLinks(tx, hugeA, "b1") }},
			{"A.AddLink(huge,b1)", func(tx *bbolt.Tx) error { _, err := sc.la.AddLink(tx, []byte(hugeA), []byte("b1")); return err }},
			{"A.SetLinks(huge,[b1])", func(tx *bbolt.Tx) error { return sc.la.SetLinks(tx, hugeA, []string{"b1"}) }},
			{"B.AddLinks(b1,[huge])", func(tx *bbolt.Tx) error { return sc.lb.AddLinks(tx, "b1", hugeA) }},
			{"A.AddLinks(a1,[hugeB])", func(tx *bbolt.Tx) error { return sc.la.AddLinks(tx, "a1", hugeB) }},
			{"B.AddLinks(hugeB,[a1])", func(tx *bbolt.Tx) error { return sc.lb.AddLinks(tx, hugeB, "a1") }},
			{"A.AddLinks(huge,[hugeB])", func(tx *bbolt.Tx) error { return sc.la.AddLinks(tx, hugeA, hugeB) }},
			{"A.rc.Increment(huge,b1)", func(tx *bbolt.Tx) error {
				_, err := sc.ra.IncrementLinkCount(tx, []byte(hugeA), []byte("b1"))
				return err
			}},
			{"B.rc.Increment(b1,huge)", func(tx *bbolt.Tx) error {
				_, err := sc.rb.IncrementLinkCount(tx, []byte("b1"), []byte(hugeA))
				return err
			}},
			{"A.rc.SetLinkCount(huge,b1,2)", func(tx *bbolt.Tx) error {
				_, _, err := sc.ra.SetLinkCount(tx, []byte(hugeA), []byte("b1"), 2)
				return err
			}},
			{"A.rc.Increment(a1,hugeB)", func(tx *bbolt.Tx) error {
				_, err := sc.ra.IncrementLinkCount(tx, []byte("a1"), []byte(hugeB))
				return err
			}},
		}
		short := func(id string) string {
			if len(id) > 8 {
				return fmt.Sprintf("<%d bytes of %q>", len(id), id[:1])
			}
			return id
		}
		for _, op := range ops {
			op := op
			rep.Count("evaluations", 1)
			rep.Count("huge_id_cases", 1)
			var opErr error
			var pan interface{}
			_ = db.Update(nil, func(ctx boltz.MutateContext) error {
				defer func() {
					if pan = recover(); pan != nil {
						panic(pan) // roll back
					}
				}()
				opErr = op.do(ctx.Tx())
				return opErr
			})
			label := fmt.Sprintf("ids of %d bytes: %s (reported %v)", size, op.name, opErr != nil)
			_ = db.View(func(tx *bbolt.Tx) error {
				for _, a := range []string{hugeA, "a1"} {
					for _, b := range []string{hugeB, "b1"} {
						ab := sc.la.IsLinked(tx, []byte(a), []byte(b))
						ba := sc.lb.IsLinked(tx, []byte(b), []byte(a))
						if ab != ba {
							rep.Violation("C05|huge-id|one-sided|"+op.name, fmt.Sprintf("%s: %s links to %s = %v but %s links to %s = %v", label, short(a), short(b), ab, short(b), short(a), ba), map[string]interface{}{"op": op.name, "id_size": size})
							return nil
						}
						c1, c2 := sc.ra.GetLinkCounts(tx, []byte(a), []byte(b))
						if i32s(c1) != i32s(c2) {
							rep.Violation("C05|huge-id|counts-differ|"+op.name, fmt.Sprintf("%s: reference counts of %s <-> %s are %s and %s", label, short(a), short(b), i32s(c1), i32s(c2)), map[string]interface{}{"op": op.name, "id_size": size})
							return nil
						}
					}
				}
				rep.Outcome(fmt.Sprintf("huge-id-symmetric(reported-error=%v)", opErr != nil))
				return nil
			})
		}
		_ = db.Close()
	}
}
