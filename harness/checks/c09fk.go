package checks

import (
	"fmt"
	"os"
	"strings"

	"github.com/openziti/storage/boltz"
	"go.etcd.io/bbolt"
	"verif/dump"
	"verif/explore"
	"verif/report"
	"verif/world"
)

// c09FkConstraints: the integrity check of foreign-key CONSTRAINTS (AddFkConstraint, nullable and not, restrict and
// cascade): healthy states report nothing; every subset of {dangling reference on w1, dangling reference on w1x,
// null in the field of w1x} is reported, fixed (set to null) exactly where the field is nullable, never repaired where
// it is not; check-only changes nothing; a second run after the fix reports only what cannot be fixed.
func c09FkConstraints(rep *report.Report) {
	dir := explore.TmpDir("c09fk")
	defer os.RemoveAll(dir)
	for wi, wiring := range []fkWiring{fkcNoneNullable, fkcNoneNonNull, fkcCascadeNullable, fkcCascadeNonNull} {
		nullable := wiring.nullable()
		sc := newFkScenario(wiring, []string{"o1", "o1x"}, []string{"w1", "w1x"}, "integrity")
		for mask := 0; mask < 8; mask++ {
			for _, sameTx := range []bool{false, true} {
				path := fmt.Sprintf("%s/fk-%d-%d-%v.db", dir, wi, mask, sameTx)
				db, err := boltz.Open(path, "root")
				if err != nil {
					panic(err)
				}
				label := fmt.Sprintf("%s corruption-mask=%03b sameTx=%v", fkWiringNames[wiring], mask, sameTx)
				sig := func(kind string) string {
					return fmt.Sprintf("C09|fk-constraint|%s|%s|mask=%03b", kind, fkWiringNames[wiring], mask)
				}
				rep.Count("evaluations", 1)
				rep.Count("fk_constraint_cases", 1)
				fail := func(kind, msg string) {
					rep.Violation(sig(kind), label+": "+msg, map[string]interface{}{"wiring": fkWiringNames[wiring], "mask": mask, "same_tx": sameTx})
				}
				build := func(ctx boltz.MutateContext) error {
					for _, o := range []string{"o1", "o1x"} {
						if err := sc.owners.Create(ctx, world.NewRec("owners", o).With("label", "L")); err != nil {
							return err
						}
					}
					if err := sc.widgets.Create(ctx, world.NewRec("widgets", "w1").With("label", "L").With("owner", "o1")); err != nil {
						return err
					}
					return sc.widgets.Create(ctx, world.NewRec("widgets", "w1x").With("label", "L").With("owner", "o1x"))
				}
				corrupt := func(tx *bbolt.Tx) error {
					if mask&1 != 0 {
						boltz.Path(tx, "root", "widgets", "w1").SetString("owner", "zz", nil)
					}
					if mask&2 != 0 {
						boltz.Path(tx, "root", "widgets", "w1x").SetString("owner", "zzz", nil)
					}
					if mask&4 != 0 { // null wins over mask&2 for w1x
						boltz.Path(tx, "root", "widgets", "w1x").SetNil("owner")
					}
					return nil
				}
				// what is wrong, per widget
				type issue struct {
					needle  []string
					fixable bool
				}
				var want []issue
				if mask&1 != 0 {
					want = append(want, issue{[]string{"w1", "zz"}, nullable})
				}
				if mask&4 != 0 {
					if !nullable {
						want = append(want, issue{[]string{"w1x", "nil"}, false})
					}
				} else if mask&2 != 0 {
					want = append(want, issue{[]string{"w1x", "zzz"}, nullable})
				}
				run := func(ctx boltz.MutateContext, fix bool) ([]c09Report, error) {
					var reports []c09Report
					sinkF := func(err error, fixed bool) { reports = append(reports, c09Report{err.Error(), fixed}) }
					for _, s := range []*world.Store{sc.owners, sc.widgets} {
						if err := s.CheckIntegrity(ctx, fix, sinkF); err != nil {
							return reports, err
						}
					}
					return reports, nil
				}
				match := func(reports []c09Report, items []issue, fixMode bool) string {
					if len(reports) != len(items) {
						return fmt.Sprintf("%d reports %v, expected %d", len(reports), reports, len(items))
					}
					for _, it := range items {
						found := false
						for _, r := range reports {
							ok := true
							for _, n := range it.needle {
								if !strings.Contains(r.msg, n) {
									ok = false
								}
							}
							if ok {
								found = true
								if r.fixed != (fixMode && it.fixable) {
									return fmt.Sprintf("report %q has fixed=%v, expected %v", r.msg, r.fixed, fixMode && it.fixable)
								}
							}
						}
						if !found {
							return fmt.Sprintf("nothing reported for %v (reports: %v)", it.needle, reports)
						}
					}
					return ""
				}
				err = db.Update(nil, func(ctx boltz.MutateContext) error {
					h := &errHolder{}
					sc.owners.InitializeIndexes(ctx.Tx(), h)
					sc.widgets.InitializeIndexes(ctx.Tx(), h)
					if h.err != nil {
						return h.err
					}
					if err := build(ctx); err != nil {
						return err
					}
					if !sameTx {
						return nil
					}
					return corrupt(ctx.Tx())
				})
				if err == nil && !sameTx {
					err = db.Update(nil, func(ctx boltz.MutateContext) error { return corrupt(ctx.Tx()) })
				}
				if err != nil {
					fail("setup", err.Error())
					_ = db.Close()
					continue
				}
				var before, afterCheck, afterFix *dump.Tree
				_ = db.View(func(tx *bbolt.Tx) error { before = dump.Tx(tx); return nil })
				var rCheck, rFix, rAgain []c09Report
				err = db.Update(nil, func(ctx boltz.MutateContext) error {
					var e error
					if rCheck, e = run(ctx, false); e != nil {
						return e
					}
					afterCheck = dump.Tx(ctx.Tx())
					if rFix, e = run(ctx, true); e != nil {
						return e
					}
					afterFix = dump.Tx(ctx.Tx())
					rAgain, e = run(ctx, false)
					return e
				})
				_ = db.Close()
				if err != nil {
					fail("error", "the integrity check failed: "+err.Error())
					continue
				}
				if p := match(rCheck, want, false); p != "" {
					fail("check-only-report", "check-only run: "+p)
				}
				if !afterCheck.Equal(before) {
					fail("check-only-modified-database", "the check-only run changed the database:\n"+dump.Diff(before, afterCheck))
				}
				if p := match(rFix, want, true); p != "" {
					fail("fix-report", "fix run: "+p)
				}
				// expected repaired image: fixable dangling references become null (read back as null), the rest stays
				wantTree := before.Clone()
				for _, it := range want {
					if it.fixable {
						wantTree.Get("root", "widgets", it.needle[0]).Values["owner"] = world.EncNil()
					}
				}
				norm := func(t *dump.Tree) *dump.Tree {
					n := t.Clone()
					if wb := n.Get("root", "widgets"); wb != nil {
						for _, eb := range wb.Buckets {
							if v, ok := eb.Values["owner"]; ok && len(v) == 0 {
								eb.Values["owner"] = world.EncNil() // a zero-length value reads back as null like the typed nil marker
							}
						}
					}
					return n
				}
				if !norm(afterFix).Equal(norm(wantTree)) {
					fail("fix-result", "after the fix run the database differs from the expected repair:\n"+dump.Diff(norm(wantTree), norm(afterFix)))
				}
				var remaining []issue
				for _, it := range want {
					if !it.fixable {
						remaining = append(remaining, it)
					}
				}
				if p := match(rAgain, remaining, false); p != "" {
					fail("not-convergent", "re-check after the fix: "+p)
				}
				rep.Outcome("fk-constraint-integrity")
			}
		}
	}
}

type errHolder struct{ err error }

func (h *errHolder) HasError() bool  { return h.err != nil }
func (h *errHolder) GetError() error { return h.err }
func (h *errHolder) SetError(err error) bool {
	if h.err == nil && err != nil {
		h.err = err
	}
	return err != nil
}
