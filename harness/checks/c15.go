package checks

import (
	"fmt"
	"github.com/openziti/storage/boltz"
	"strings"
	"verif/explore"
	"verif/report"
	"verif/world"
)

// C15 — parent and child (extension) stores stay consistent.
func C15(tier string) int {
	rep := report.New("C15", tier, "model_checking")
	rep.Assume("bbolt transactions are atomic and isolated (trusted base)")
	rep.Assume("promoting an existing parent entity by Create through a child store, and deleting a plain parent through a plain child store, are not specified and not in the alphabet")
	rep.Set("rule", "BFS to closure over create/update/patch/delete through parent, plain child and extended child store; oracle = complete image + FindById/LoadById/QueryIds (id-ordered and sorted)/IterateIds/IterateValidIds through all three stores + parent index reads")
	// the child stores own constraints of their own (unique index on the plain child, set index on the extended child)
	for _, extFirst := range []bool{true, false} {
		if tier == "quick" && !extFirst {
			continue // quick: the order in which the extended store (which claims every parent entity) comes first
		}
		kc := newKitchen(fmt.Sprintf("parent+children, child-store indexes and link collection, extended registered first=%v", extFirst), kFeat{childIdx: true, places: true, childLinks: true, extFirst: extFirst})
		kcCfg := explore.Config{Programs: explore.SingleOps(len(kc.Ops()))}
		if tier == "quick" {
			kcCfg.MaxDepth = 4
		}
		runE1(rep, kc, kcCfg)
	}
	k := newKitchen("parent+children+indexes+fk", kFeat{orgs: true})
	n := len(k.Ops())
	// two operations in one transaction (e.g. create through the child store, then update through the parent)
	kp := newKitchen("parent+children+indexes+fk; 2 ops per tx", kFeat{orgs: true})
	// pairs over the operations with ordinary values (the empty unique value, the duplicate-carrying list and the
	// ignored failed delete take part as single operations)
	var core []int
	for i, o := range kp.Ops() {
		if !strings.Contains(o.Name, "name=,") && !strings.Contains(o.Name, "roles=[r r]") && !strings.HasPrefix(o.Name, "deleteIgnoringNotFound") {
			core = append(core, i)
		}
	}
	pprogs := explore.SingleOps(len(kp.Ops()))
	for _, a := range core {
		for _, b := range core {
			pprogs = append(pprogs, []int{a, b})
		}
	}
	pcfg := explore.Config{Programs: pprogs, SkipRejectedPrefix: true, MaxDepth: 2}
	if tier != "quick" {
		pcfg.MaxDepth, pcfg.MaxTrans = 3, 20_000_000
	}
	runE1(rep, kp, pcfg)
	if tier == "quick" {
		runE1(rep, k, explore.Config{Programs: explore.SingleOps(n)})
	} else {
		runE1(rep, k, explore.Config{Programs: explore.SingleOps(n)})
		k2 := newKitchen("parent+children+indexes+fk+pets+links", kFeat{orgs: true, pets: true, places: true})
		runE1(rep, k2, explore.Config{Programs: explore.SingleOps(len(k2.Ops())), MaxTrans: 8_000_000})
	}
	c15Views(rep, tier)
	// what the parent store refuses, the child stores refuse too: a set element too large to be stored is rejected
	// whichever store the entity comes through (the parent part of a child entity is persisted through a derived
	// persist context, which must report its failures)
	kh := newKitchen("parent+children; oversized set element through every store", kFeat{})
	huge := strings.Repeat("N", 40000)
	tr, nick := true, "n"
	hops := append([]explore.Op{}, kh.Ops()...)
	for _, via := range []string{"people", "mgr", "prof"} {
		via := via
		rec := func(id string) *world.Rec {
			switch via {
			case "mgr":
				return kh.personRec(id, "C", []string{huge}, nil, &tr, nil)
			case "prof":
				return kh.personRec(id, "C", []string{huge}, nil, nil, &nick)
			}
			return kh.personRec(id, "C", []string{huge}, nil, nil, nil)
		}
		hops = append(hops, explore.Op{Name: "create@" + via + "(#p1,name=C,roles=[<40000 bytes>])",
			Do:    func(ctx boltz.MutateContext) error { return kh.storeFor(via).Create(ctx, rec("#p1")) },
			Apply: func(explore.Model) []string { return []string{"unusable-key", "exists", "dup"} }})
		hops = append(hops, explore.Op{Name: "update@" + via + "(#p1,name=C,roles=[<40000 bytes>])",
			Do:    func(ctx boltz.MutateContext) error { return kh.storeFor(via).Update(ctx, rec("#p1"), nil) },
			Apply: func(explore.Model) []string { return []string{"unusable-key", "notfound", "dup"} }})
	}
	runE1(rep, &extraOpsScenario{Scenario: kh, ops: hops}, explore.Config{Programs: explore.SingleOps(len(hops)), MaxDepth: 2})
	return rep.Finish()
}

// extraOpsScenario is a scenario with further operations appended to its alphabet.
type extraOpsScenario struct {
	explore.Scenario
	ops []explore.Op
}

func (e *extraOpsScenario) Ops() []explore.Op { return e.ops }
