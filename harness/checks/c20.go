package checks

import (
	"fmt"
	"sort"
	"strings"

	"github.com/openziti/storage/ast"
	"github.com/openziti/storage/boltz"
	rm "verif/refmodel"
	"verif/report"
	"verif/world"
)

// ---------------------------------------------------------------------------------------------
// C20 — public-symbol validation sees every symbol a query references.

// newPubWorld wires the people store with exactly the symbols in pub marked public
// (id and the fk symbol boss are always public: the API offers no non-public registration for them).
func newPubWorld(pub map[string]bool, dotted []string) *world.Store {
	places := world.NewStore(&world.Spec{EntityType: "places", BasePath: []string{"root"}, Fields: []world.Field{{Name: "name", Kind: world.KString}}})
	places.AddIdSymbol("id", ast.NodeTypeString)
	places.AddSymbol("name", ast.NodeTypeString)
	p := world.NewStore(&world.Spec{EntityType: "people", BasePath: []string{"root"}})
	p.AddIdSymbol("id", ast.NodeTypeString)
	for _, sc := range []struct {
		name string
		t    ast.NodeType
	}{{"s", ast.NodeTypeString}, {"i", ast.NodeTypeInt64}, {"nn", ast.NodeTypeInt64}, {"f", ast.NodeTypeFloat64}, {"b", ast.NodeTypeBool}, {"t", ast.NodeTypeDatetime}} {
		if pub[sc.name] {
			p.AddSymbol(sc.name, sc.t)
		} else {
			p.AddEntitySymbol(p.NewEntitySymbol(sc.name, sc.t))
		}
	}
	if pub["roles"] {
		p.AddPublicSetSymbol("roles", ast.NodeTypeString)
	} else {
		p.AddSetSymbol("roles", ast.NodeTypeString)
	}
	p.AddFkSymbol("boss", p)
	p.AddFkSetSymbol("reports", p)
	p.AddFkSetSymbol("places", places)
	places.AddFkSetSymbol("people", p)
	p.AddMapSymbol("tags", ast.NodeTypeAnyType, "tags")
	for _, name := range []string{"reports", "places", "tags"} {
		if pub[name] {
			p.MakeSymbolPublic(name)
		}
	}
	for _, d := range dotted {
		if pub[d] {
			p.MakeSymbolPublic(d)
		}
	}
	return p
}

func c20Toggleable(sym string) bool {
	return sym != "id" && sym != "boss"
}

// publicKey maps a referenced symbol to the name whose public flag decides it
// (an element of a map symbol is public exactly when the map is).
func publicKey(sym string) string {
	if strings.HasPrefix(sym, "tags.") {
		return "tags"
	}
	return sym
}

func C20(tier string) int {
	rep := report.New("C20", tier, "exploration")
	thorough := tier != "quick"
	rep.Assume("sub-queries are generated over the self-referential set only, so 'public for the store' is unambiguous for the inner predicate's symbols")
	rep.Assume("id and fk symbols cannot be registered non-public through the API and are always public")
	rep.Set("rule", "every typed query of the C01/C02 generators (each typed node kind at least once, measured with an ast.Visitor) x EVERY public/non-public assignment of the symbols it mentions; accept <=> all mentioned symbols public; a rejection must name a non-public symbol of the query")

	type qc struct {
		text string
		syms []string
	}
	var queries []qc
	seenText := map[string]bool{}
	addQ := func(text string, syms []string) {
		if seenText[text] {
			return
		}
		seenText[text] = true
		queries = append(queries, qc{text, syms})
	}
	usable := func(e rm.Expr) bool {
		for _, s := range rm.Symbols(e) {
			if strings.HasPrefix(s, "places") || s == "name" || s == "people" || strings.Contains("."+s+".", ".sk.") || strings.Contains("."+s+".", ".chief.") {
				return false
			}
		}
		return true
	}
	for _, a := range c01Atoms(true) {
		if a.mandatory && usable(a.e) {
			addQ(a.e.Text(), rm.Symbols(a.e))
		}
	}
	comp := c01Composable()
	for i, a := range comp {
		for j, b := range comp {
			if i < j {
				e := rm.Or{A: rm.And{A: a, B: rm.Not{A: b}}, B: rm.Cmp{L: lhs("t"), Op: "<", R: rm.Time(qTmid)}}
				addQ(e.Text(), rm.Symbols(e))
			}
		}
	}
	// nesting depth: a non-public symbol buried three levels deep
	deep := rm.Not{A: rm.Or{A: rm.BoolConst{V: false}, B: rm.And{A: rm.Cmp{L: lhs("id"), Op: "=", R: rm.Str("e1")}, B: rm.Not{A: rm.Not{A: rm.Cmp{L: anyOf("roles"), Op: "=", R: rm.Str("a")}}}}}}
	addQ(deep.Text(), rm.Symbols(deep))
	// sort fields
	for _, sf := range [][]string{{"s"}, {"i", "s"}, {"b", "t", "f"}, {"id", "s"}} {
		var parts []string
		for k, f := range sf {
			if k%2 == 1 {
				parts = append(parts, f+" desc")
			} else {
				parts = append(parts, f)
			}
		}
		for _, pred := range []string{"", "true ", `nn > 4 `} {
			syms := append([]string{}, sf...)
			if strings.HasPrefix(pred, "nn") {
				syms = append(syms, "nn")
			}
			addQ(pred+"sort by "+strings.Join(parts, ", ")+" skip 1 limit 2", syms)
		}
	}
	// predicates whose value does not depend on the subject (reversed or equal bounds, empty intersections) still reference it
	addQ(`i between 6 and 4`, []string{"i"})
	addQ(`i not between 6 and 4`, []string{"i"})
	addQ(`f between 5 and 5`, []string{"f"})
	addQ(`count(roles) between 9 and 1`, []string{"roles"})
	addQ(`count(from reports where s = "a") not between 9 and 1`, []string{"reports", "s"})
	addQ(`anyOf(reports.i) between 6 and 4 or b`, []string{"reports.i", "b"})
	addQ(`t between datetime(2021-06-07T08:09:10Z) and datetime(2020-01-02T03:04:05Z)`, []string{"t"})
	addQ(`i > 5 and i < 4`, []string{"i"})
	addQ(`true or s = "a"`, []string{"s"})
	addQ(`false and nn = 4`, []string{"nn"})
	// sort fields of sub-queries are referenced symbols too
	addQ(`count(from reports where s = "a" sort by i) > 0`, []string{"reports", "s", "i"})
	addQ(`isEmpty(from reports where true sort by t desc skip 1)`, []string{"reports", "t"})
	addQ(`count(from reports where anyOf(roles) = "a" sort by f, b desc limit 1) = 0`, []string{"reports", "roles", "f", "b"})
	addQ(`count(from reports where count(from reports where true sort by nn) > 0 sort by id, s) > 0`, []string{"reports", "nn", "s"})
	addQ(`not isEmpty(from reports where i > 4 sort by id, f)`, []string{"reports", "i", "f"})
	// a symbol and a longer symbol that begins with its name (each is judged on its own)
	addQ(`boss = "e1" or boss.s = "a"`, []string{"boss", "boss.s"})
	addQ(`boss.s = "a" or boss = "e1"`, []string{"boss.s", "boss"})
	addQ(`boss != null and boss.i > 4 sort by boss.s`, []string{"boss", "boss.i", "boss.s"})
	addQ(`boss = "e1" sort by boss.s desc`, []string{"boss", "boss.s"})
	addQ(`not isEmpty(reports) and anyOf(reports.i) = 4`, []string{"reports", "reports.i"})
	addQ(`anyOf(reports.i) = 4 and not isEmpty(reports)`, []string{"reports.i", "reports"})
	addQ(`count(reports) > 0 or count(reports.s) > 0 or anyOf(reports.roles) = "a"`, []string{"reports", "reports.s", "reports.roles"})
	addQ(`s = "a" and boss.s = "a" and anyOf(reports.s) = "a"`, []string{"s", "boss.s", "reports.s"})
	addQ(`i = 4 or boss.i = 4 sort by i, boss.i`, []string{"i", "boss.i"})
	// set functions and integer symbols met by NON-integer operands (the typer wraps them in conversion nodes)
	addQ(`count(roles) > 1.5`, []string{"roles"})
	addQ(`count(roles) in [0.5, 2]`, []string{"roles"})
	addQ(`count(roles) between 0.5 and 3`, []string{"roles"})
	addQ(`count(roles) not between 0.5 and 3.5 or b`, []string{"roles", "b"})
	addQ(`count(reports.i) >= 0.5`, []string{"reports.i"})
	addQ(`count(from reports where s = "a") < 2.5`, []string{"reports", "s"})
	addQ(`count(from reports where count(roles) > 0.5) != 1.5`, []string{"reports", "roles"})
	addQ(`i > 1.5 and nn < 4.5`, []string{"i", "nn"})
	addQ(`i in [4.5, 5] or nn between 3.5 and 4.5`, []string{"i", "nn"})
	addQ(`anyOf(reports.i) > 4.5`, []string{"reports.i"})
	addQ(`allOf(reports.nn) <= 4.5`, []string{"reports.nn"})
	// elements of a map symbol, one and several levels below it, in every position a symbol can take
	for _, el := range []string{"tags.k", "tags.k.sub", "tags.k.sub.leaf", "tags.tags", "tags.id.s"} {
		addQ(el+` = "v"`, []string{el})
		addQ(el+` != null`, []string{el})
		addQ(`not (`+el+` contains "v") or s = "a"`, []string{el, "s"})
		addQ(el+` in ["v", "w"] and i = 4`, []string{el, "i"})
		addQ(`true sort by `+el+` desc, s`, []string{el, "s"})
		addQ(`count(from reports where `+el+` = "v") > 0`, []string{"reports", el})
	}
	if !thorough {
		// quick: every 3rd query of the bulk classes, all of the rare ones
		var keep []qc
		for i, q := range queries {
			if i%3 == 0 || len(q.syms) >= 2 || strings.Contains(q.text, "sort by") || strings.Contains(q.text, "from ") {
				keep = append(keep, q)
			}
		}
		queries = keep
	}
	rep.Count("queries", int64(len(queries)))

	kinds := &kindVisitor{seen: map[string]int{}}
	for qi, q := range queries {
		var dotted, toggles []string
		set := map[string]bool{}
		for _, s := range q.syms {
			k := publicKey(s)
			if strings.Contains(k, ".") {
				dotted = append(dotted, k)
			}
			if c20Toggleable(k) && !set[k] {
				set[k] = true
				toggles = append(toggles, k)
			}
		}
		sort.Strings(toggles)
		if len(toggles) > 5 {
			rep.Count("queries_skipped_too_many_symbols", 1)
			continue
		}
		for mask := 0; mask < 1<<len(toggles); mask++ {
			pub := map[string]bool{}
			var nonPublic []string
			for i, t := range toggles {
				if mask&(1<<i) != 0 {
					pub[t] = true
				} else {
					nonPublic = append(nonPublic, t)
				}
			}
			store := newPubWorld(pub, dotted)
			query, err, pan := safeParse(store, q.text)
			if pan != nil || err != nil {
				rep.Violation("C20|parse|"+q.text, fmt.Sprintf("query %q does not parse: err=%v panic=%v", q.text, err, pan), map[string]interface{}{"query": q.text})
				break
			}
			if mask == 0 {
				query.Accept(kinds)
			}
			rep.Count("evaluations", 1)
			rep.Count("compared_pairs", 1)
			verr := boltz.ValidateSymbolsArePublic(query, store)
			label := fmt.Sprintf("public=%v non-public=%v", keysOf(pub), nonPublic)
			if len(nonPublic) == 0 {
				rep.Outcome("accepted")
				if verr != nil {
					rep.Violation("C20|rejected-although-all-public|"+q.text, fmt.Sprintf("%q with %s rejected: %v", q.text, label, verr), map[string]interface{}{"query": q.text, "assignment": label})
				}
				continue
			}
			rep.Outcome("rejected")
			if verr == nil {
				rep.Violation("C20|accepted-with-non-public-symbol|"+q.text+"|"+strings.Join(nonPublic, ","), fmt.Sprintf("%q accepted although %v are not public (%s)", q.text, nonPublic, label), map[string]interface{}{"query": q.text, "assignment": label})
				continue
			}
			named := ""
			if use, ok := verr.(ast.UnknownSymbolError); ok {
				named = use.Symbol
			}
			okName := false
			for _, s := range q.syms {
				if s == named && !pub[publicKey(s)] && c20Toggleable(publicKey(s)) {
					okName = true
				}
			}
			if !okName {
				rep.Violation("C20|rejection-names-wrong-symbol|"+q.text, fmt.Sprintf("%q rejected with %v, which does not name a non-public symbol of the query (%s)", q.text, verr, label), map[string]interface{}{"query": q.text, "assignment": label})
			}
		}
		// symbols made public AFTER the query was parsed: the same parsed query is rejected until the last of its symbols
		// has been made public, accepted from then on
		if len(toggles) > 0 && len(dotted) == 0 && !set["roles"] {
			store := newPubWorld(map[string]bool{}, nil)
			if query, err, pan := safeParse(store, q.text); pan == nil && err == nil {
				for i := 0; i <= len(toggles); i++ {
					rep.Count("evaluations", 1)
					rep.Count("made_public_after_parse", 1)
					verr := boltz.ValidateSymbolsArePublic(query, store)
					if (verr == nil) != (i == len(toggles)) {
						rep.Violation("C20|public-after-parse|"+q.text, fmt.Sprintf("%q parsed while nothing was public; after MakeSymbolPublic of %v (of %v) validation says %v", q.text, toggles[:i], toggles, verr), map[string]interface{}{"query": q.text})
						break
					}
					if i < len(toggles) {
						store.MakeSymbolPublic(toggles[i])
					}
				}
			}
		}
		if qi%97 == 0 {
			rep.Sample(map[string]interface{}{"query": q.text, "symbols": q.syms, "assignments": 1 << len(toggles)})
		}
	}
	// typed node-kind coverage: every typed kind must have been produced at least once
	required := []string{
		"VisitNotExprNodeStart", "VisitAndExprNodeStart", "VisitOrExprNodeStart", "VisitBinaryBoolExprNodeStart", "VisitBinaryDatetimeExprNodeStart",
		"VisitBinaryFloat64ExprNodeStart", "VisitBinaryInt64ExprNodeStart", "VisitBinaryStringExprNodeStart", "VisitIsNilExprNodeStart",
		"VisitInt64BetweenExprNodeStart", "VisitFloat64BetweenExprNodeStart", "VisitDatetimeBetweenExprNodeStart",
		"VisitInDatetimeArrayExprNodeStart", "VisitInFloat64ArrayExprNodeStart", "VisitInInt64ArrayExprNodeStart", "VisitInStringArrayExprNodeStart",
		"VisitBoolConstNode", "VisitDatetimeConstNode", "VisitFloat64ConstNode", "VisitInt64ConstNode", "VisitStringConstNode",
		"VisitDatetimeArrayNodeStart", "VisitFloat64ArrayNodeStart", "VisitInt64ArrayNodeStart", "VisitStringArrayNodeStart",
		"VisitBoolSymbolNode", "VisitDatetimeSymbolNode", "VisitFloat64SymbolNode", "VisitInt64SymbolNode", "VisitStringSymbolNode", "VisitAnyTypeSymbolNode",
		"VisitInt64ToFloat64NodeStart", "VisitStringFuncNodeStart",
		"VisitAllOfSetExprNodeStart", "VisitAnyOfSetExprNodeStart", "VisitCountSetExprNodeStart", "VisitIsEmptySetExprNodeStart",
		"VisitSortByNode", "VisitSortFieldNode", "VisitLimitExprNode", "VisitSkipExprNode", "VisitSymbol",
	}
	var missing []string
	for _, k := range required {
		if kinds.seen[k] == 0 {
			missing = append(missing, k)
		}
	}
	rep.Set("typed_node_kinds_required", len(required))
	rep.Set("typed_node_kinds_produced", len(required)-len(missing))
	rep.Set("visit_callbacks_seen", len(kinds.seen))
	if len(missing) > 0 {
		rep.Violation("C20|vacuous-coverage", fmt.Sprintf("generator never produced node kinds %v: the check would be vacuous for them", missing), nil)
	}
	rep.Set("evaluations", rep.Get("evaluations"))
	rep.Set("distinct_nontrivial", int(rep.Get("compared_pairs")))
	return rep.Finish()
}

func keysOf(m map[string]bool) []string {
	var out []string
	for k := range m {
		out = append(out, k)
	}
	sort.Strings(out)
	return out
}
