package checks

import (
	"fmt"
	"runtime"
	"strings"
	"sync"
	"sync/atomic"

	"github.com/openziti/storage/ast"
	"github.com/openziti/storage/boltz"
	"github.com/openziti/storage/objectz"
	"github.com/openziti/storage/zitiql"
	"go.etcd.io/bbolt"
	rm "verif/refmodel"
	"verif/report"
)

// ---------------------------------------------------------------------------------------------
// C10 — parsing and evaluation are total: no panics, invalid input is rejected.

type c10Env struct {
	worlds [3]*qWorld // empty store, all-null entity, populated
	// the same three datasets as in-memory object stores: a second symbol table (objectz answers
	// "found" for every name in IsSet, so unknown names reach the typing pass)
	objs [3]*objectz.ObjectStore[*c19Obj]
}

func newC10Env() *c10Env {
	env := &c10Env{}
	sp, ip, fp, bp, tp := "a", int64(4), 4.5, true, qT0
	es := ""
	objSets := [3][]*c19Obj{{}, {{id: "e1"}}, {{id: "e1", s: &sp, i: &ip, f: &fp, b: &bp, t: &tp}, {id: "e2", s: &es}, {id: "e3"}}}
	for i := range objSets {
		set := objSets[i]
		env.objs[i] = newObjStore(&set)
	}
	for i := range env.worlds {
		w := newQWorld()
		w.open()
		env.worlds[i] = w
		if i == 0 {
			continue
		}
		ds := newQDS()
		mk := func(id string) *rm.Ent {
			e := &rm.Ent{Id: id, F: map[string]rm.Val{}, Sets: map[string][]string{}, Fk: map[string]*string{}, Tags: map[string]rm.Val{}}
			ds.Stores["people"].Ents[id] = e
			return e
		}
		e1 := mk("e1")
		if i == 2 {
			ds.Stores["places"].Ents["l1"] = &rm.Ent{Id: "l1", F: map[string]rm.Val{"name": rm.Str("x")}, Sets: map[string][]string{}, Fk: map[string]*string{}}
			e2, e3 := mk("e2"), mk("e3")
			e1.F["s"], e1.F["i"], e1.F["nn"], e1.F["f"], e1.F["b"], e1.F["t"] = rm.Str("a"), rm.Int(4), rm.Int(4), rm.Flt(4.5), rm.Bool(true), rm.Time(qT0)
			e1.Sets["roles"] = []string{"a", "b"}
			e1.Sets["places"] = []string{"l1"}
			e1.Tags["k"] = rm.Str("a")
			e2.F["s"], e2.F["i"], e2.F["b"] = rm.Str(""), rm.Int(5), rm.Bool(false)
			e2.Tags["k"] = rm.Int(5)
			b := "e1"
			e2.Fk["boss"] = &b
			e3.Fk["boss"] = &b
			e3.Tags["k"] = rm.Bool(true)
		}
		err := w.db.Update(nil, func(ctx boltz.MutateContext) error { return w.materialise(ctx, ds) })
		if err != nil {
			panic(err)
		}
	}
	return env
}

func (env *c10Env) close() {
	for _, w := range env.worlds {
		w.close()
	}
}

// check runs one input through parse (+ evaluation when accepted). Returns whether it was accepted.
func (env *c10Env) check(rep *report.Report, class, text string) bool {
	env.checkObj(rep, class, text)
	w0 := env.worlds[0]
	q, err, pan := safeParse(w0.people, text)
	if pan != nil {
		rep.Violation("C10|panic-in-parse|"+text, fmt.Sprintf("parsing %q panicked: %v", text, pan), map[string]interface{}{"input": text, "class": class})
		return false
	}
	if err != nil {
		return false
	}
	if q == nil {
		rep.Violation("C10|nil-query-without-error|"+text, fmt.Sprintf("parsing %q returned neither a query nor an error", text), map[string]interface{}{"input": text})
		return false
	}
	if text != "" {
		sentence, lexOk := rm.InGrammar(text)
		if !lexOk {
			rep.Violation("C10|accepted-with-unrecognised-characters|"+text, fmt.Sprintf("%q contains characters the lexer does not recognise but was accepted (as %q)", text, q.String()), map[string]interface{}{"input": text, "class": class})
			return true
		}
		if !sentence {
			rep.Violation("C10|accepted-outside-grammar|"+text, fmt.Sprintf("%q is not a sentence of ZitiQl.g4 but was accepted (as %q)", text, q.String()), map[string]interface{}{"input": text, "class": class})
			return true
		}
	}
	for i, w := range env.worlds {
		// a query is typed against one store instance; re-parse for the other worlds' stores
		wq := q
		if i > 0 {
			var err2 error
			var pan2 interface{}
			wq, err2, pan2 = safeParse(w.people, text)
			if pan2 != nil || err2 != nil {
				rep.Violation("C10|unstable-parse|"+text, fmt.Sprintf("%q accepted once, then err=%v panic=%v", text, err2, pan2), map[string]interface{}{"input": text})
				continue
			}
		}
		var pan interface{}
		_ = w.db.View(func(tx *bbolt.Tx) error {
			func() {
				defer func() { pan = recover() }()
				_, _, _ = w.people.QueryIdsC(tx, wq)
				c := w.people.IterateIds(tx, wq)
				for n := 0; c.IsValid() && n < 10; n++ {
					c.Next()
				}
				// index-cursor driven evaluation: providers over 0, 1 and 2 index values, present and absent
				for _, vals := range [][]string{{"a"}, {"a", "b"}, {"nope1", "nope2"}, {}} {
					_, _, _ = w.people.QueryWithCursorC(tx, w.people.IteratorMatchingAnyOf(w.rolesIdx, vals), wq)
					_, _, _ = w.people.QueryWithCursorC(tx, w.people.IteratorMatchingAllOf(w.rolesIdx, vals), wq)
				}
			}()
			return nil
		})
		if pan != nil {
			rep.Violation("C10|panic-in-eval|"+text, fmt.Sprintf("evaluating %q on dataset %d (0=empty store,1=all-null entity,2=populated) panicked: %v", text, i, pan), map[string]interface{}{"input": text, "dataset": i, "class": class})
		}
	}
	return true
}

var c10Lexemes = []string{
	"(", ")", "[", "]", ",", "and", "or", "not", "=", "!=", "<", "in", "between", "contains", "icontains",
	"true", "null", `"x"`, "5", "4.5", "datetime(2020-01-02T03:04:05Z)",
	"anyOf", "allOf", "count", "isEmpty", "from", "where", "sort", "by", "skip", "limit", "none", "desc",
	"s", "i", "b", "t", "roles", "reports", "tags.k", "boss.s",
	"#", ";", "§",
}

func C10(tier string) int {
	rep := report.New("C10", tier, "exploration")
	thorough := tier != "quick"
	maxLen := 3
	if thorough {
		maxLen = 4
	}
	rep.Assume("the recogniser of ZitiQl.g4 (maximal-munch lexer + memoised backtracking parser) is the oracle for 'sentence of the grammar'; only the direction accepted => in grammar is demanded")
	rep.Set("rule", fmt.Sprintf("(1) ALL token sequences of length <= %d over %d lexemes, joined with and without blanks; (2) all byte strings of length <= 3 over 40 bytes; (3) every symbol kind x operator x operand-type mix the grammar admits; (4) single-token delete/duplicate/replace mutations of valid sentences; (5) all parse sequences of length 3 over {valid, syntax error, lexer error, type error, debug parse} against pooled lexer/parser instances. Accepted => in grammar and evaluates on 3 datasets without panic.", maxLen, len(c10Lexemes)))

	nw := runtime.NumCPU()
	var accepted int64
	// ---- (1) token sequences, sharded by the first two tokens
	type shard struct{ a, b int }
	shards := make(chan shard, 64)
	var wg sync.WaitGroup
	for wk := 0; wk < nw; wk++ {
		wg.Add(1)
		go func() {
			defer wg.Done()
			env := newC10Env()
			defer env.close()
			for sh := range shards {
				var rec func(seq []string)
				rec = func(seq []string) {
					if rep.TooMany() {
						return
					}
					if len(seq) > 0 {
						for _, sep := range []string{" ", ""} {
							if sep == "" && len(seq) == 1 {
								continue
							}
							text := strings.Join(seq, sep)
							rep.Count("evaluations", 1)
							if env.check(rep, "token-sequence", text) {
								atomic.AddInt64(&accepted, 1)
								rep.Distinct(text)
								if atomic.LoadInt64(&accepted)%50 == 1 {
									rep.Sample(text)
								}
							}
						}
					}
					if len(seq) == maxLen {
						return
					}
					for _, l := range c10Lexemes {
						rec(append(seq, l))
					}
				}
				if sh.b < 0 {
					// length-1 sequence
					text := c10Lexemes[sh.a]
					rep.Count("evaluations", 1)
					if env.check(rep, "token-sequence", text) {
						atomic.AddInt64(&accepted, 1)
						rep.Distinct(text)
					}
					continue
				}
				rec([]string{c10Lexemes[sh.a], c10Lexemes[sh.b]})
			}
		}()
	}
	for a := range c10Lexemes {
		shards <- shard{a, -1}
		for b := range c10Lexemes {
			shards <- shard{a, b}
		}
	}
	close(shards)
	wg.Wait()
	rep.Count("token_sequences_accepted", atomic.LoadInt64(&accepted))

	env := newC10Env()
	defer env.close()
	// ---- (2) short byte strings
	bytesAlpha := []byte(" \t\n\"'\\()[],.=!<>-+0159aeEnNtTzZ_#;$%&*/:?@^`{|}~\x00\x7f")
	bytesAlpha = append(bytesAlpha, 0x80, 0xc3, 0xa9, 0xff)
	var recB func(cur []byte)
	recB = func(cur []byte) {
		if len(cur) > 0 {
			rep.Count("evaluations", 1)
			rep.Count("byte_strings", 1)
			if env.check(rep, "bytes", string(cur)) {
				rep.Distinct(string(cur))
			}
		}
		if len(cur) == 3 || rep.TooMany() {
			return
		}
		for _, b := range bytesAlpha {
			recB(append(append([]byte{}, cur...), b))
		}
	}
	recB(nil)
	env.check(rep, "bytes", "")
	env.check(rep, "bytes", "   ")

	// ---- (3) operand-type mixes
	syms := []string{"s", "i", "nn", "f", "b", "t", "id", "boss", "tags.k", "boss.s", "boss.t", "roles", "reports", "places",
		"anyOf(roles)", "allOf(roles)", "anyOf(reports.i)", "allOf(reports.t)", "anyOf(reports.b)", "anyOf(reports.tags.k)", "anyOf(places.name)", "anyOf(reports)",
		"count(roles)", "count(reports)", "count(reports.s)", "count(places.name)", "count(reports.roles)", "count(reports.reports)", "count(reports.boss)", "count(from reports where s = \"a\")", "count(from places where name = \"x\")", "anyOf(s)", "count(s)", "nosuch", "anyOf(nosuch)"}
	lits := []string{`"a"`, `""`, "5", "-5", "4.5", "1e3", "1E+3", "-0", "0.0", "5e-1", "-4.5e2", "1e999", "99999999999999999999",
		"datetime(2020-01-02T03:04:05.123456789Z)", "datetime(2020-01-02T03:04:05+01:30)", "datetime(2020-01-02t03:04:05z)", "datetime( 2020-01-02T03:04:05-00:00 )", "datetime(2020-01-02T24:00:00Z)", "true", "FALSE", "null", "datetime(2020-01-02T03:04:05Z)", "datetime(2020-13-02T03:04:05Z)",
		"datetime(2020-02-30T00:00:00Z)", "datetime(2021-06-30T23:59:60Z)"}
	ops := []string{"=", "!=", "<", "<=", ">", ">=", "contains", "not contains", "icontains", "not icontains"}
	var sentences []string
	for _, sy := range syms {
		for _, op := range ops {
			for _, l := range lits {
				sentences = append(sentences, sy+" "+op+" "+l)
			}
		}
		for _, arr := range []string{`["a"]`, `["a", "b"]`, `[5]`, `[5, 4.5]`, `[4.5]`, `[datetime(2020-01-02T03:04:05Z)]`, `[]`, `["a", 5]`, `[true]`, `["a", "b", "a"]`, `[5, 5, 6]`, `[4.5, 5, -1e2]`,
			`[datetime(2020-01-02T03:04:05Z), datetime(2020-01-02T03:04:05+00:00), datetime(2021-01-02T03:04:05.5Z)]`, `[ "a" ,"b"]`,
			// literals that lex but cannot be converted, in every position of an array
			`[5, 1e999]`, `[1e999, 5]`, `[5, 99999999999999999999]`, `[99999999999999999999]`, `[4.5, 1e999, 5]`,
			`[datetime(2020-01-02T03:04:05Z), datetime(2020-13-02T03:04:05Z)]`, `[datetime(2020-13-02T03:04:05Z), datetime(2020-01-02T03:04:05Z)]`, `[datetime(2020-02-30T00:00:00Z)]`,
			// ... a datetime that satisfies the lexer's digit pattern but is not a date or time of day
			`[datetime(2020-01-02T03:04:05Z), datetime(2020-02-30T00:00:00Z)]`, `[datetime(2020-02-30T00:00:00Z), datetime(2020-01-02T03:04:05Z)]`,
			`[datetime(2020-01-02T03:04:05Z), datetime(2021-01-02T03:04:05Z), datetime(2021-04-31T00:00:00Z)]`, `[datetime(2020-01-02T03:04:05Z), datetime(2021-06-30T23:59:60Z)]`,
			`[datetime(2020-01-02T03:04:05Z), datetime(2021-06-30T25:00:00Z), datetime(2021-01-02T03:04:05Z)]`, `[datetime(2020-01-02T03:04:05Z), datetime(2020-01-02T03:04:05+99:00)]`} {
			sentences = append(sentences, sy+" in "+arr, sy+" not in "+arr)
		}
		for _, bounds := range [][2]string{{"4", "6"}, {"4.5", "6"}, {"6", "4"}, {"datetime(2020-01-02T03:04:05Z)", "datetime(2021-01-02T03:04:05Z)"}, {"4", "datetime(2021-01-02T03:04:05Z)"}, {`"a"`, `"b"`},
			{"4", "1e999"}, {"1e999", "4"}, {"datetime(2020-01-02T03:04:05Z)", "datetime(2020-13-02T03:04:05Z)"}, {"datetime(2020-13-02T03:04:05Z)", "datetime(2020-01-02T03:04:05Z)"},
			{"datetime(2020-01-02T03:04:05Z)", "datetime(2020-02-30T00:00:00Z)"}, {"datetime(2020-02-30T00:00:00Z)", "datetime(2020-01-02T03:04:05Z)"}, {"datetime(2020-02-30T00:00:00Z)", "datetime(2021-04-31T00:00:00Z)"}} {
			sentences = append(sentences, sy+" between "+bounds[0]+" and "+bounds[1], sy+" not between "+bounds[0]+" and "+bounds[1])
		}
		sentences = append(sentences, sy, "not "+sy, "isEmpty("+sy+")", "not isEmpty("+sy+")", "true sort by "+sy, "true sort by "+sy+" desc", sy+" and "+sy, "isEmpty(from "+sy+" where true)", "count(from "+sy+" where id = \"e1\") > 0")
	}
	for _, extra := range []string{
		"true skip 1.5", "true limit 1.5", "true skip -1", "true limit -5", "true skip 99999999999999999999", "true limit none", "skip 1", "limit none", "sort by s", "sort by s, i desc, nosuch",
		"true sort by roles", "true sort by tags.k", "true sort by boss.s", "sort by s skip 1 limit 1", "true limit 1 skip 1", "true sort by s sort by i",
		"isEmpty(from reports where anyOf(roles) = \"a\" sort by s skip 1 limit 1)", "count(from reports where true skip 1 limit none) = 0",
		"count(from reports where count(from reports where true) > 0) > 0", "anyOf(reports.reports.reports.s) = \"a\"", "boss.boss.boss.boss.s = \"a\"",
		"'s' = \"a\"", "'tags.k' = 5", "tags = 5", "tags.a.b = 5", "tags.a-b = 5", "anyOf(tags.k) = 5", "anyOf(tags) = 5",
	} {
		sentences = append(sentences, extra)
	}
	for _, sn := range sentences {
		rep.Count("evaluations", 1)
		rep.Count("type_mix_sentences", 1)
		if env.check(rep, "type-mix", sn) {
			rep.Distinct(sn)
			rep.Outcome("type-mix-accepted")
		} else {
			rep.Outcome("type-mix-rejected")
		}
	}

	// ---- (3b) acceptance is compositional: with P accepted, `P and (T)` / `(T) and P` are accepted exactly when T is -
	// in particular after nested sub-queries whose symbol tables differ from the outer one
	prefixes := []string{
		`isEmpty(from places where isEmpty(from people where true))`,
		`count(from places where count(from people where anyOf(roles) = "a") > 0) > 0`,
		`isEmpty(from reports where isEmpty(from places where name = "x"))`,
		`count(from reports where count(from reports where count(from places where true) = 0) = 0) = 0`,
		`anyOf(places.people.roles) = "a"`,
	}
	accepts := func(text string) bool {
		q, err, pan := safeParse(env.worlds[0].people, text)
		if pan != nil {
			rep.Violation("C10|panic-in-parse|"+text, fmt.Sprintf("parsing %q panicked: %v", text, pan), map[string]interface{}{"input": text, "class": "composition"})
			return false
		}
		return err == nil && q != nil
	}
	for _, p := range prefixes {
		if !accepts(p) {
			rep.Violation("C10|composition-prefix-rejected|"+p, fmt.Sprintf("well-formed query %q rejected", p), map[string]interface{}{"input": p})
			continue
		}
		for _, t := range sentences {
			if strings.Contains(t, "sort by") || strings.Contains(t, "skip ") || strings.Contains(t, "limit ") || strings.TrimSpace(t) == "" {
				continue
			}
			alone := accepts(t)
			for _, c := range []string{p + " and (" + t + ")", "(" + t + ") and " + p} {
				rep.Count("evaluations", 1)
				rep.Count("compositions", 1)
				if got := accepts(c); got != alone {
					rep.Violation("C10|acceptance-not-compositional|"+c, fmt.Sprintf("%q accepted=%v on its own, but %q accepted=%v (the other conjunct %q is accepted)", t, alone, c, got, p), map[string]interface{}{"input": c, "class": "composition"})
				}
			}
		}
	}

	// ---- (4) single-token mutations of valid sentences
	valid := []string{
		`s = "x" and i > 5`, `anyOf(roles) = "x" or isEmpty(reports)`, `i between 4 and 6 sort by s desc skip 1 limit 5`,
		`count(from reports where s != "x") >= 1`, `not (b) and t < datetime(2020-01-02T03:04:05Z)`, `s in ["x", "y"] and tags.k = true`,
	}
	for _, v := range valid {
		toks, _ := rm.Lex(v)
		for i := range toks {
			var variants [][]rm.Tok
			del := append(append([]rm.Tok{}, toks[:i]...), toks[i+1:]...)
			dup := append(append(append([]rm.Tok{}, toks[:i+1]...), toks[i]), toks[i+1:]...)
			variants = append(variants, del, dup)
			for _, l := range c10Lexemes {
				rp := append([]rm.Tok{}, toks...)
				rp[i] = rm.Tok{Text: l}
				variants = append(variants, rp)
			}
			for _, vt := range variants {
				var sb strings.Builder
				for _, t := range vt {
					sb.WriteString(t.Text)
				}
				rep.Count("evaluations", 1)
				rep.Count("mutations", 1)
				if env.check(rep, "mutation", sb.String()) {
					rep.Distinct(sb.String())
				}
			}
		}
	}

	// ---- (4b) characters that Go and Unicode call white space but the grammar does not (and those it does), in front
	// of, behind and inside valid sentences
	edge := []string{" ", "\t", "\n", "\r", "\f", "\v", "\u00a0", "\u0085", "\u1680", "\u2000", "\u2028", "\u2029", "\u202f", "\u205f", "\u3000", "\ufeff", "\x00", "\x1f", "\x7f"}
	for _, v := range append(append([]string{}, valid...), "true", "skip 1", `s = "a"`) {
		for _, e := range edge {
			for _, in := range []string{e + v, v + e, e + v + e, " " + e + v, v + e + " ", strings.Replace(v, " ", e, 1), strings.Replace(v, " ", " "+e, 1)} {
				rep.Count("evaluations", 1)
				rep.Count("whitespace_affixes", 1)
				env.check(rep, "affix", in)
			}
		}
	}

	// ---- (5) pooled lexer/parser reuse
	c10Pool(rep, env)

	rep.Set("evaluations", rep.Get("evaluations"))
	return rep.Finish()
}

// checkObj runs one input through the in-memory object store (parse + scan + sort + page) on the three datasets.
func (env *c10Env) checkObj(rep *report.Report, class, text string) {
	for i, st := range env.objs {
		var pan interface{}
		var err error
		func() {
			defer func() { pan = recover() }()
			_, _, err = st.QueryEntities(text)
		}()
		if pan != nil {
			rep.Violation("C10|panic-objectstore|"+text, fmt.Sprintf("objectz.ObjectStore.QueryEntities(%q) on dataset %d (0=empty,1=all-null object,2=populated) panicked: %v", text, i, pan), map[string]interface{}{"input": text, "dataset": i, "class": class})
			return
		}
		if err == nil && text != "" && i == 0 {
			rep.Count("objectstore_accepted", 1)
			if sentence, lexOk := rm.InGrammar(text); !lexOk || !sentence {
				rep.Violation("C10|objectstore-accepted-outside-grammar|"+text, fmt.Sprintf("%q is not a sentence of ZitiQl.g4 but objectz.ObjectStore accepted it", text), map[string]interface{}{"input": text, "class": class})
				return
			}
		}
	}
}

// c10Pool: every sequence of three parses over five input classes; each parse must give the result
// the same input gives on its own (no state may leak through pooled lexer/parser instances).
func c10Pool(rep *report.Report, env *c10Env) {
	inputs := []struct{ name, text string }{
		{"valid", `s = "x" and i > 5`},
		{"syntax-error", `s = = "x"`},
		{"lexer-error", `s = "x" # and b`},
		{"type-error", `s = datetime(2020-01-02T03:04:05Z)`},
		{"debug", `i in [4, 5] or b`},
	}
	store := env.worlds[0].people
	outcome := func(i int) string {
		in := inputs[i]
		var res string
		func() {
			defer func() {
				if r := recover(); r != nil {
					res = fmt.Sprintf("panic: %v", r)
				}
			}()
			if in.name == "debug" {
				l := ast.NewListener()
				// the number of diagnostics a debug parse reports is a debugging aid, not part of the
				// property; the debug parse is in the alphabet because it leaves listeners on the pooled parser
				_ = zitiql.ParseWithDebug(in.text, l, true)
				res = "debug-parse completed"
				return
			}
			q, err := ast.Parse(store, in.text)
			if err != nil {
				res = "error: " + err.Error()
			} else {
				res = "ok: " + q.String()
			}
		}()
		return res
	}
	base := make([]string, len(inputs))
	for i := range inputs {
		base[i] = outcome(i)
	}
	for a := range inputs {
		for b := range inputs {
			for c := range inputs {
				rep.Count("evaluations", 1)
				rep.Count("pool_sequences", 1)
				seq := []int{a, b, c}
				for k, i := range seq {
					if got := outcome(i); got != base[i] {
						rep.Violation(fmt.Sprintf("C10|pool-state-leak|%s after %s", inputs[i].name, inputs[seq[0]].name), fmt.Sprintf("sequence %s,%s,%s: parse #%d of %q gave %q, on its own it gives %q", inputs[a].name, inputs[b].name, inputs[c].name, k+1, inputs[i].text, got, base[i]), nil)
					}
				}
			}
		}
	}
}
