package checks

import (
	"fmt"
	"os"
	"reflect"
	"time"

	"github.com/openziti/storage/ast"
	"github.com/openziti/storage/boltz"
	"go.etcd.io/bbolt"
	"verif/explore"
	"verif/report"
	"verif/world"
)

// c13BaseValues: the values every extended entity carries (created-at, updated-at, tags, the system flag) written by
// BaseExtEntity's own persistence code and read back in a later transaction - for an entity that brings its own
// timestamps (Migrate) every pair of instants must come back as written; otherwise both stamps are the time of
// the write; an update keeps created-at, and a field-checker that does not select `tags` keeps the tags.
func c13BaseValues(rep *report.Report) {
	dir := explore.TmpDir("c13base")
	defer os.RemoveAll(dir)
	db, err := boltz.Open(dir+"/base.db", "root")
	if err != nil {
		panic(err)
	}
	defer db.Close()
	store := world.NewStore(&world.Spec{EntityType: "things", BasePath: []string{"root"}, Ext: true, Fields: []world.Field{{Name: "name", Kind: world.KString}}})
	store.AddIdSymbol("id", ast.NodeTypeString)
	instants := []time.Time{
		time.Date(2019, 3, 3, 23, 36, 7, 0, time.UTC),
		time.Date(2021, 11, 12, 13, 14, 15, 123456789, time.FixedZone("x", 5*3600+1800)),
		time.Date(1, 1, 1, 0, 0, 0, 1, time.UTC),
		time.Date(9999, 12, 31, 23, 59, 59, 999999999, time.UTC),
	}
	tagSets := []map[string]interface{}{nil, {}, {"k": "v"}, {"k": int64(5), "b": true, "n": nil}}
	n := 0
	for _, created := range instants {
		for _, updated := range instants {
			for ti, tags := range tagSets {
				for _, sys := range []bool{false, true} {
					n++
					id := fmt.Sprintf("m%d", n)
					rep.Count("evaluations", 1)
					rep.Count("base_value_cases", 1)
					label := fmt.Sprintf("Migrate create: createdAt=%s updatedAt=%s tags#%d isSystem=%v", created.Format(time.RFC3339Nano), updated.Format(time.RFC3339Nano), ti, sys)
					r := world.NewRec("things", id).With("name", "N")
					r.Migrate, r.CreatedAt, r.UpdatedAt, r.Tags, r.IsSystem = true, created, updated, tags, sys
					if err := db.Update(nil, func(ctx boltz.MutateContext) error { return store.Create(ctx.GetSystemContext(), r) }); err != nil {
						rep.Violation("C13|base-values|create-failed", label+": "+err.Error(), nil)
						continue
					}
					var got *world.Rec
					_ = db.View(func(tx *bbolt.Tx) error { got, _, _ = store.FindById(tx, id); return nil })
					if got == nil {
						rep.Violation("C13|base-values|lost", label+": entity not found in a later transaction", nil)
						continue
					}
					wantTags := map[string]interface{}{}
					for k, v := range tags {
						wantTags[k] = v
					}
					if !got.CreatedAt.Equal(created) || !got.UpdatedAt.Equal(updated) || got.IsSystem != sys || !reflect.DeepEqual(got.Tags, wantTags) {
						rep.Violation("C13|base-values|migrate-create", fmt.Sprintf("%s: read back createdAt=%s updatedAt=%s tags=%v isSystem=%v", label, got.CreatedAt.Format(time.RFC3339Nano), got.UpdatedAt.Format(time.RFC3339Nano), got.Tags, got.IsSystem), map[string]interface{}{"case": label})
						continue
					}
					// an ordinary update afterwards: created-at stays, updated-at moves to the time of the write, tags follow the checker
					before := time.Now().Add(-time.Second)
					for ci, checker := range []boltz.FieldChecker{nil, boltz.MapFieldChecker{"name": struct{}{}}, boltz.MapFieldChecker{"tags": struct{}{}}} {
						u := world.NewRec("things", id).With("name", "N2")
						u.Tags = map[string]interface{}{"new": "t"}
						if err := db.Update(nil, func(ctx boltz.MutateContext) error { return store.Update(ctx.GetSystemContext(), u, checker) }); err != nil {
							rep.Violation("C13|base-values|update-failed", label+": "+err.Error(), nil)
							break
						}
						_ = db.View(func(tx *bbolt.Tx) error { got, _, _ = store.FindById(tx, id); return nil })
						expTags := map[string]interface{}{"new": "t"}
						if ci == 1 {
							expTags = wantTags
						}
						if !got.CreatedAt.Equal(created) || got.UpdatedAt.Before(before) || got.IsSystem != sys || !reflect.DeepEqual(got.Tags, expTags) {
							rep.Violation(fmt.Sprintf("C13|base-values|update|checker#%d", ci), fmt.Sprintf("%s, then an update (checker #%d): createdAt=%s (must stay), updatedAt=%s (must be the time of the update), tags=%v (expected %v), isSystem=%v", label, ci, got.CreatedAt.Format(time.RFC3339Nano), got.UpdatedAt.Format(time.RFC3339Nano), got.Tags, expTags, got.IsSystem), map[string]interface{}{"case": label})
							break
						}
						wantTags = expTags
					}
				}
			}
		}
	}
	// without Migrate: both stamps are the time of the write, whatever the entity carries
	r := world.NewRec("things", "plain").With("name", "N")
	r.CreatedAt, r.UpdatedAt = instants[0], instants[1]
	before := time.Now().Add(-time.Second)
	if err := db.Update(nil, func(ctx boltz.MutateContext) error { return store.Create(ctx, r) }); err != nil {
		rep.Violation("C13|base-values|create-failed", "ordinary create: "+err.Error(), nil)
		return
	}
	var got *world.Rec
	_ = db.View(func(tx *bbolt.Tx) error { got, _, _ = store.FindById(tx, "plain"); return nil })
	if got == nil || got.CreatedAt.Before(before) || !got.CreatedAt.Equal(got.UpdatedAt) {
		rep.Violation("C13|base-values|ordinary-create", fmt.Sprintf("ordinary create: read back %+v; both stamps must be the time of the write", got), nil)
	}
}
