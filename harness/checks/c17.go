package checks

import (
	"bytes"
	"context"
	"errors"
	"fmt"
	"hash/crc32"
	"io"
	"os"
	"reflect"
	"runtime"
	"strings"
	"sync"
	"sync/atomic"
	"unsafe"

	"github.com/openziti/storage/boltz"
	"go.etcd.io/bbolt"
	"verif/dump"
	"verif/explore"
	"verif/report"
	"verif/vsched"
	"verif/vsync"
)

// ---------------------------------------------------------------------------------------------
// C17 — snapshot and restore reproduce the database exactly.

func stripMeta(t *dump.Tree) *dump.Tree {
	c := t.Clone()
	delete(c.Buckets, "meta")
	return c
}

func C17(tier string) int {
	rep := report.New("C17", tier, "model_checking")
	thorough := tier != "quick"
	rep.Assume("schedules interleave at DbImpl.reloadLock operations, at bbolt's writer, meta and mmap locks (rwlock, metalock, mmaplock - so waiting for a transaction to end is a disabled thread), at tracked spawns (restore listeners) and at harness yield points inside transaction bodies; between those points bbolt's calls are atomic")
	bound := 2
	if thorough {
		bound = 3
	}
	rep.Set("rule", fmt.Sprintf("sequential: every state A (BFS depth <= 1 quick / 2 thorough of the index scenario) x every continuation transaction: snapshot; continuation; restore; full image == image(A) apart from the two markers, snapshot id, listeners once, timeline id fresh exactly once, restored database accepts every operation exactly like A (reference model); StreamToWriter copy identical; timeline table: 3 modes x marker x stored id x id function = 24 cells. schedules: ALL interleavings with <= %d preemptions of restore || reader || writer (|| snapshot || RootBucket user): each transaction sees the old or the new database in full, final image is restored or restored+writer, no deadlock, no panic", bound))

	c17Sequential(rep, thorough)
	c17Timeline(rep)
	c17Schedules(rep, bound, thorough)
	rep.Count("traces_validated_against_impl", rep.Get("transitions"))
	return rep.Finish()
}

func c17Sequential(rep *report.Report, thorough bool) {
	sc := newIdxScenario([]string{"e1", "e1x"})
	depth := 1
	if thorough {
		depth = 2
	}
	brep := report.New("C17-base", "quick", "model_checking")
	ex := &explore.Explorer{Sc: sc, Cfg: explore.Config{Programs: explore.SingleOps(len(sc.Ops())), MaxDepth: depth, KeepFiles: true}, Rep: brep}
	ex.Run()
	defer os.RemoveAll(ex.Dir)
	states := ex.States
	rep.Count("states", int64(len(states)))
	var next int64 = -1
	var wg sync.WaitGroup
	for wk := 0; wk < runtime.NumCPU(); wk++ {
		wk := wk
		wg.Add(1)
		go func() {
			defer wg.Done()
			wsc := newIdxScenario([]string{"e1", "e1x"})
			ops := wsc.Ops()
			dir := fmt.Sprintf("%s/w%d", ex.Dir, wk)
			_ = os.MkdirAll(dir, 0o755)
			for {
				i := int(atomic.AddInt64(&next, 1))
				if i >= len(states) || rep.TooMany() {
					return
				}
				st := states[i]
				var conts [][]int
				for o := range ops {
					if thorough || st.Depth <= 1 || o%9 == 0 {
						conts = append(conts, []int{o})
					}
				}
				for o := 0; o < len(ops); o += 23 {
					conts = append(conts, []int{o, (o * 7) % len(ops)})
				}
				for ci, cont := range conts {
					c17Case(rep, wsc, ops, st, cont, dir, ci%40 == 0)
				}
			}
		}()
	}
	wg.Wait()
}

var lockStateOnce sync.Once

// reloadLockState reads DbImpl.reloadLock (a vsync.RWMutex in the instrumented build).
func reloadLockState(db boltz.Db) (readers int, writer bool, ok bool) {
	v := reflect.ValueOf(db)
	if v.Kind() != reflect.Ptr || v.Elem().Kind() != reflect.Struct {
		return 0, false, false
	}
	f := v.Elem().FieldByName("reloadLock")
	if !f.IsValid() || f.Type() != reflect.TypeOf(vsync.RWMutex{}) || !f.CanAddr() {
		return 0, false, false
	}
	m := (*vsync.RWMutex)(unsafe.Pointer(f.UnsafeAddr()))
	readers, writer = m.Held()
	return readers, writer, true
}

func c17Case(rep *report.Report, sc *idxScenario, ops []explore.Op, st *explore.State, cont []int, dir string, fullSuccessors bool) {
	path := dir + "/work.db"
	for _, f := range []string{path, path + ".previous"} {
		_ = os.Remove(f)
	}
	if err := explore.CopyFile(st.Path, path); err != nil {
		panic(err)
	}
	db, err := boltz.Open(path, "root")
	if err != nil {
		panic(err)
	}
	defer db.Close()
	var names []string
	for _, o := range cont {
		names = append(names, ops[o].Name)
	}
	label := fmt.Sprintf("state{%s} snapshot; TX{%s}; restore", strings.Join(st.History, " -> "), strings.Join(names, " ; "))
	replay := map[string]interface{}{"state_history": st.History, "continuation": names}
	sig := func(kind string) string { return "C17|" + kind + "|" + strings.Join(names, " ; ") }
	rep.Count("transitions", 1)
	var l1, l2 int64
	db.AddRestoreListener(func() { atomic.AddInt64(&l1, 1) })
	db.AddRestoreListener(func() { atomic.AddInt64(&l2, 1) })
	snap := func() *dump.Tree {
		var t *dump.Tree
		_ = db.View(func(tx *bbolt.Tx) error { t = dump.Tx(tx); return nil })
		return t
	}
	imageA := snap()
	// StreamToWriter: a consistent copy of the committed state
	var buf bytes.Buffer
	if err := db.StreamToWriter(&buf); err != nil {
		rep.Violation(sig("stream-error"), label+": StreamToWriter failed: "+err.Error(), replay)
	} else {
		sp := dir + "/stream.db"
		_ = os.WriteFile(sp, buf.Bytes(), 0o600)
		if sdb, err := bbolt.Open(sp, 0o600, nil); err != nil {
			rep.Violation(sig("stream-unreadable"), label+": the streamed copy cannot be opened: "+err.Error(), replay)
		} else {
			if got := dump.DB(sdb); !got.Equal(imageA) {
				rep.Violation(sig("stream-differs"), label+": the streamed copy differs from the database:\n"+dump.Diff(imageA, got), replay)
			}
			_ = sdb.Close()
		}
	}
	// sequential use: once a top-level call has returned (and its spawned goroutines are done) the
	// reload lock must be free again - otherwise the restore below would wait forever
	lockFree := func(after string) bool {
		vsync.WaitIdle()
		r, w, ok := reloadLockState(db)
		if !ok {
			lockStateOnce.Do(func() { rep.Capped("reload-lock state not observable (not the instrumented build)") })
			return true
		}
		if r != 0 || w {
			rep.Violation(sig("lock-leak"), label+fmt.Sprintf(": after %s returned the database's reload lock is still held (readers=%d writer=%v): the next restore would block forever", after, r, w), replay)
			return false
		}
		return true
	}
	snapPath, snapId, err := db.Snapshot(dir + "/snap.db")
	if err != nil {
		rep.Violation(sig("snapshot-error"), label+": Snapshot failed: "+err.Error(), replay)
		return
	}
	if !lockFree("View/StreamToWriter/Snapshot") {
		return
	}
	if got := snap(); !got.Equal(imageA) {
		rep.Violation(sig("snapshot-changed-source"), label+": taking a snapshot changed the source database:\n"+dump.Diff(imageA, got), replay)
	}
	// continuation (committed or rejected, whatever the operations decide)
	_, _ = explore.RunProgram(db, explore.OrdinaryContext(), ops, cont, true, nil)
	if !lockFree("the continuation transaction (Update)") {
		return
	}
	data, err := os.ReadFile(snapPath)
	if err != nil {
		panic(err)
	}
	// a snapshot stream that breaks off (k bytes delivered, then a read error) is not a snapshot: a restore
	// that nevertheless reports success must have produced the snapshot's state, and one that reports failure
	// must leave the old or the new database in full
	imageB0 := snap()
	for _, k := range []int{0, 1, len(data) / 2, len(data) - 1} {
		var ipan interface{}
		func() {
			defer func() { ipan = recover() }()
			db.RestoreFromReader(&brokenReader{data: data[:k]})
		}()
		vsync.WaitIdle()
		rep.Count("interrupted_streams", 1)
		var after *dump.Tree
		verr := func() (err error) {
			defer func() {
				if r := recover(); r != nil {
					err = fmt.Errorf("panic: %v", r)
				}
			}()
			return db.View(func(tx *bbolt.Tx) error { after = dump.Tx(tx); return nil })
		}()
		isOld := verr == nil && after.Equal(imageB0)
		isNew := verr == nil && stripMeta(after).Equal(stripMeta(imageA))
		if ipan == nil && !isNew {
			rep.Violation(sig("incomplete-snapshot-accepted"), label+fmt.Sprintf(": RestoreFromReader returned normally for a stream that broke off after %d of %d bytes, and the database is not the snapshot's state (read error: %v)", k, len(data), verr), replay)
			return
		}
		if ipan != nil && !isOld && !isNew {
			rep.Violation(sig("failed-restore-left-mixture"), label+fmt.Sprintf(": RestoreFromReader failed for a stream that broke off after %d of %d bytes (%v) and left neither the old nor the new database (read error: %v)", k, len(data), ipan, verr), replay)
			return
		}
		if !lockFree("a failed RestoreFromReader") {
			return
		}
		if !isOld {
			break // (legitimately) restored already
		}
	}
	atomic.StoreInt64(&l1, 0)
	atomic.StoreInt64(&l2, 0)
	var pan interface{}
	route := crc32.ChecksumIEEE([]byte(label)) % 3
	func() {
		defer func() { pan = recover() }()
		switch route {
		case 0:
			db.RestoreSnapshot(data)
		case 1: // a reader that hands out 4096-byte pieces and reports EOF together with the last one
			db.RestoreFromReader(&chunkReader{data: data, chunk: 4096, eofWithLast: true})
		default: // odd-sized pieces, EOF on a separate call
			db.RestoreFromReader(&chunkReader{data: data, chunk: 1021})
		}
	}()
	rep.Outcome(fmt.Sprintf("restore-route-%d", route))
	vsync.WaitIdle()
	_ = os.Remove(snapPath)
	if pan != nil {
		rep.Violation(sig("restore-panic"), label+fmt.Sprintf(": RestoreSnapshot panicked: %v", pan), replay)
		return
	}
	if !lockFree("RestoreSnapshot") {
		return
	}
	restored := snap()
	if got, want := stripMeta(restored), stripMeta(imageA); !got.Equal(want) {
		rep.Violation(sig("restored-content-differs"), label+": restored database differs from the state at snapshot time:\n"+dump.Diff(want, got), replay)
		return
	}
	meta := restored.Get("meta")
	if meta == nil || !bytes.Equal(meta.Values["snapshotId"], append([]byte{5}, snapId...)) || !bytes.Equal(meta.Values["resetTimeline"], []byte{1, 1}) {
		rep.Violation(sig("markers"), label+fmt.Sprintf(": snapshot markers wrong after restore: %v (snapshot id %s)", meta, snapId), replay)
	}
	if id, err := db.GetSnapshotId(); err != nil || id == nil || *id != snapId {
		rep.Violation(sig("snapshot-id"), label+fmt.Sprintf(": GetSnapshotId() = %v, %v; Snapshot returned %s", id, err, snapId), replay)
	}
	if a, b := atomic.LoadInt64(&l1), atomic.LoadInt64(&l2); a != 1 || b != 1 {
		rep.Violation(sig("restore-listeners"), label+fmt.Sprintf(": restore listeners ran %d and %d times, expected once each", a, b), replay)
	}
	calls := 0
	idF := func() (string, error) { calls++; return fmt.Sprintf("timeline-%d", calls), nil }
	t1, err1 := db.GetTimelineId(boltz.TimelineModeDefault, idF)
	t2, err2 := db.GetTimelineId(boltz.TimelineModeDefault, idF)
	if err1 != nil || err2 != nil || t1 != "timeline-1" || t2 != "timeline-1" || calls != 1 {
		rep.Violation(sig("timeline"), label+fmt.Sprintf(": after restore GetTimelineId gave %q,%v then %q,%v with %d id-function calls; expected a fresh id exactly once", t1, err1, t2, err2, calls), replay)
	}
	// the restored database must accept further operations exactly like A
	if err := db.View(func(tx *bbolt.Tx) error { return sc.Invariant(tx, st.Model) }); err != nil {
		rep.Violation(sig("restored-reads"), label+": reads on the restored database disagree with the model of A: "+err.Error(), replay)
	}
	for o := range ops {
		if !fullSuccessors && o%13 != 0 {
			continue
		}
		m := st.Model.Clone()
		classes := ops[o].Apply(m)
		modelOk := len(classes) == 1 && classes[0] == "ok"
		var post *dump.Tree
		opErr, _ := explore.RunProgram(db, explore.OrdinaryContext(), ops, []int{o}, false, func(tx *bbolt.Tx) error { post = dump.Tx(tx); return nil })
		rep.Count("transitions", 1)
		if modelOk != (opErr == nil) {
			rep.Violation(sig("restored-behaves-differently")+"|"+ops[o].Name, label+fmt.Sprintf("; then %s: err=%v, on A the reference says %v", ops[o].Name, opErr, classes), replay)
			break
		}
		if opErr == nil {
			if got, want := sc.Normalize(stripMeta(post)), m.Render(); !got.Equal(want) {
				rep.Violation(sig("restored-behaves-differently")+"|"+ops[o].Name, label+"; then "+ops[o].Name+": resulting image differs from the reference:\n"+dump.Diff(got, want), replay)
				break
			}
		}
	}
	rep.Outcome("restore-verified")
	if !fullSuccessors {
		return
	}
	// ---- several snapshot/restore cycles on the SAME database handle: A --cont--> B, snapshot S2 of B,
	// --cont--> C, restore S1 (must be A again, id1), restore S2 (must be B, id2), each time with fresh
	// markers, listeners and timeline bookkeeping
	_, _ = explore.RunProgram(db, explore.OrdinaryContext(), ops, cont, true, nil)
	imageB := snap()
	snap2Path, snapId2, err := db.Snapshot(dir + "/snap2.db")
	if err != nil {
		rep.Violation(sig("second-snapshot-error"), label+": second Snapshot failed: "+err.Error(), replay)
		return
	}
	data2, err := os.ReadFile(snap2Path)
	if err != nil {
		panic(err)
	}
	_ = os.Remove(snap2Path)
	if snapId2 == snapId {
		rep.Violation(sig("snapshot-id-reused"), label+": the second snapshot got the id of the first one: "+snapId2, replay)
	}
	_, _ = explore.RunProgram(db, explore.OrdinaryContext(), ops, cont, true, nil)
	for round, rs := range []struct {
		name  string
		data  []byte
		id    string
		image *dump.Tree
	}{{"first snapshot again", data, snapId, imageA}, {"second snapshot", data2, snapId2, imageB}} {
		if id, err := db.GetSnapshotId(); err == nil && id != nil {
			_ = id // reading the id between restores must not pin it
		}
		db.RestoreSnapshot(rs.data)
		if !lockFree("RestoreSnapshot") {
			return
		}
		rep.Count("transitions", 1)
		got := snap()
		if g, w := stripMeta(got), stripMeta(rs.image); !g.Equal(w) {
			rep.Violation(sig("multi-cycle-content"), label+": after restoring the "+rs.name+" on the same handle the database differs from that snapshot's state:\n"+dump.Diff(w, g), replay)
			return
		}
		if id, err := db.GetSnapshotId(); err != nil || id == nil || *id != rs.id {
			rep.Violation(sig("multi-cycle-snapshot-id"), label+fmt.Sprintf(": after restoring the %s GetSnapshotId() = %v, %v; that snapshot's id is %s", rs.name, derefS(id), err, rs.id), replay)
		}
		if a, b := atomic.LoadInt64(&l1), atomic.LoadInt64(&l2); a != int64(round+2) || b != int64(round+2) {
			rep.Violation(sig("multi-cycle-listeners"), label+fmt.Sprintf(": after %d restores the listeners ran %d and %d times", round+2, a, b), replay)
		}
		calls := 0
		idF := func() (string, error) { calls++; return fmt.Sprintf("timeline-r%d-%d", round, calls), nil }
		t1, err1 := db.GetTimelineId(boltz.TimelineModeDefault, idF)
		t2, err2 := db.GetTimelineId(boltz.TimelineModeDefault, idF)
		if err1 != nil || err2 != nil || t1 != fmt.Sprintf("timeline-r%d-1", round) || t2 != t1 || calls != 1 {
			rep.Violation(sig("multi-cycle-timeline"), label+fmt.Sprintf(": after restoring the %s GetTimelineId gave %q,%v then %q,%v with %d id-function calls; expected a fresh id exactly once", rs.name, t1, err1, t2, err2, calls), replay)
		}
	}
	rep.Outcome("multi-cycle-verified")
}

// c17Timeline: every mode x reset marker x stored id x id function outcome.
func c17Timeline(rep *report.Report) {
	dir := explore.TmpDir("c17tl")
	defer os.RemoveAll(dir)
	n := 0
	for _, mode := range []boltz.TimelineMode{boltz.TimelineModeDefault, boltz.TimelineModeInitIfEmpty, boltz.TimelineModeForceReset} {
		for _, marker := range []bool{false, true} {
			for _, stored := range []bool{false, true} {
				for _, idErr := range []bool{false, true} {
					n++
					path := fmt.Sprintf("%s/t%d.db", dir, n)
					db, err := boltz.Open(path, "root")
					if err != nil {
						panic(err)
					}
					_ = db.Update(nil, func(ctx boltz.MutateContext) error {
						b := boltz.GetOrCreatePath(ctx.Tx(), boltz.Metadata)
						if marker {
							b.SetBool(boltz.ResetTimeline, true, nil)
						}
						if stored {
							b.SetString(boltz.TimelineId, "old-id", nil)
						}
						return b.GetError()
					})
					calls := 0
					idF := func() (string, error) {
						calls++
						if idErr {
							return "", errors.New("id function failed")
						}
						return "new-id", nil
					}
					got, gerr := db.GetTimelineId(mode, idF)
					// reference
					reset := marker || mode == boltz.TimelineModeForceReset || (mode == boltz.TimelineModeInitIfEmpty && !stored)
					wantId, wantErr, wantCalls := "", false, 0
					switch {
					case reset && idErr:
						wantErr, wantCalls = true, 1
					case reset:
						wantId, wantCalls = "new-id", 1
					case stored:
						wantId = "old-id"
					}
					cell := fmt.Sprintf("mode=%s marker=%v stored=%v idFunctionFails=%v", mode, marker, stored, idErr)
					rep.Count("transitions", 1)
					rep.Count("timeline_cells", 1)
					if (gerr != nil) != wantErr || got != wantId || calls != wantCalls {
						rep.Violation("C17|timeline-table|"+cell, fmt.Sprintf("%s: GetTimelineId = %q, %v with %d id-function calls; expected %q, error=%v, %d calls", cell, got, gerr, calls, wantId, wantErr, wantCalls), nil)
					}
					// what is stored afterwards
					var storedId *string
					var storedMarker bool
					_ = db.View(func(tx *bbolt.Tx) error {
						if b := boltz.Path(tx, boltz.Metadata); b != nil {
							storedId = b.GetString(boltz.TimelineId)
							storedMarker = b.GetBoolWithDefault(boltz.ResetTimeline, false)
						}
						return nil
					})
					wantStored, wantMarker := "", marker
					if stored {
						wantStored = "old-id"
					}
					if reset && !idErr {
						wantStored, wantMarker = "new-id", false
					}
					gs := ""
					if storedId != nil {
						gs = *storedId
					}
					if gs != wantStored || storedMarker != wantMarker {
						rep.Violation("C17|timeline-table-stored|"+cell, fmt.Sprintf("%s: stored afterwards id=%q marker=%v; expected id=%q marker=%v", cell, gs, storedMarker, wantStored, wantMarker), nil)
					}
					_ = db.Close()
				}
			}
		}
	}
}

func c17Schedules(rep *report.Report, bound int, thorough bool) {
	w := newCWorld()
	w.lite = true
	dir := explore.TmpDir("c17s")
	defer os.RemoveAll(dir)
	baseA := dir + "/A.db"
	w.buildBase(baseA)
	// snapshot of A, then the database moves on to B = A + tx1
	dbA, err := boltz.Open(baseA, "root")
	if err != nil {
		panic(err)
	}
	snapPath, _, err := dbA.Snapshot(dir + "/snapA.db")
	if err != nil {
		panic(err)
	}
	snapBytes, _ := os.ReadFile(snapPath)
	if err := dbA.Update(nil, func(ctx boltz.MutateContext) error { return w.tx1(ctx, noYield) }); err != nil {
		panic(err)
	}
	snapBPath, _, err := dbA.Snapshot(dir + "/snapB.db")
	if err != nil {
		panic(err)
	}
	snapBBytes, _ := os.ReadFile(snapBPath)
	_ = dbA.Close()
	baseB := baseA // now holds B

	// serial references: tuples / images of B, B+tx2, A', A'+tx2
	type ref struct {
		name  string
		tuple string
		image *dump.Tree
	}
	var refs []ref
	mk := func(name, src string, restore, write bool) {
		p := dir + "/ref.db"
		_ = os.Remove(p)
		_ = os.Remove(p + ".previous")
		if err := explore.CopyFile(src, p); err != nil {
			panic(err)
		}
		db, err := boltz.Open(p, "root")
		if err != nil {
			panic(err)
		}
		if restore {
			db.RestoreSnapshot(snapBytes)
			vsync.WaitIdle()
		}
		if write {
			if err := db.Update(nil, func(ctx boltz.MutateContext) error { return w.tx2(ctx, noYield) }); err != nil {
				panic(err)
			}
		}
		r := ref{name: name}
		_ = db.View(func(tx *bbolt.Tx) error {
			r.tuple = w.readTuple(tx, noYield)
			r.image = stripMeta(dump.Tx(tx))
			return nil
		})
		refs = append(refs, r)
		_ = db.Close()
	}
	mk("old", baseB, false, false)
	mk("old+writer", baseB, false, true)
	mk("restored", baseB, true, false)
	mk("restored+writer", baseB, true, true)

	type variant struct {
		name        string
		snapshot    bool
		rootUser    bool
		snapInTx    bool // a read transaction that, after other threads had a chance to commit, snapshots what IT sees
		twoRestores bool // a second restore (of a snapshot of the current state B) overlapping the first; no writer
	}
	variants := []variant{{"restore||reader||writer", false, false, false, false}, {"restore||reader||writer||Snapshot()", true, false, false, false}, {"restore||reader||writer||RootBucket+GetDefaultSnapshotPath-in-tx", false, true, false, false},
		{"restore||reader||writer||View{SnapshotInTx}", false, false, true, false},
		{"restore(A)||restore(B)||reader", false, false, false, true}}
	for _, v := range variants {
		v := v
		var cur struct {
			db        *boltz.DbImpl
			tuple     string
			errs      []string
			listeners int64
			begin     [4]string // what each transaction saw when it began (state key for pruning)
		}
		vbound := bound
		if v.snapshot || v.rootUser || v.snapInTx || v.twoRestores {
			vbound = bound - 1 // the four-thread variants one preemption below the three-thread one (quick: 1, thorough: 2)
		}
		rep.Set("preemption_bound["+v.name+"]", vbound)
		ex := &vsched.Explorer{Bound: vbound, MaxSteps: 6000, MaxExecs: c17MaxExecs(thorough), ReplayEvery: 25}
		ex.Cleanup = func() { _ = cur.db.Close() }
		ex.KeyFn = func() string {
			return strings.Join(cur.begin[:], "|") + "#" + cur.tuple + "#" + strings.Join(cur.errs, ";") + fmt.Sprint(cur.listeners)
		}
		ex.Body = func() func() {
			p := dir + "/x.db"
			_ = os.Remove(p)
			_ = os.Remove(p + ".previous")
			if err := explore.CopyFile(baseB, p); err != nil {
				panic(err)
			}
			db, err := boltz.Open(p, "root")
			if err != nil {
				panic(err)
			}
			cur.db, cur.tuple, cur.errs, cur.listeners = db, "", nil, 0
			cur.begin = [4]string{}
			db.AddRestoreListener(func() { cur.listeners++ })
			return func() {
				vsync.Go0(func() { db.RestoreSnapshot(snapBytes) })
				vsync.Go0(func() {
					if err := db.View(func(tx *bbolt.Tx) error {
						cur.begin[0] = w.readTuple(tx, noYield)
						if !thorough && (v.snapshot || v.rootUser || v.snapInTx) {
							vsync.Yield("reader:in-tx")
							cur.tuple = w.readTuple(tx, noYield) // quick, four threads: one yield point inside the read transaction
						} else {
							cur.tuple = w.readTuple(tx, vsync.Yield)
						}
						return nil
					}); err != nil {
						cur.errs = append(cur.errs, "reader: "+err.Error())
					}
				})
				if v.twoRestores {
					vsync.Go0(func() { db.RestoreSnapshot(snapBBytes) })
				} else {
					vsync.Go0(func() {
						if err := db.Update(boltz.NewMutateContext(context.Background()), func(ctx boltz.MutateContext) error {
							cur.begin[1] = w.readTuple(ctx.Tx(), noYield)
							if !thorough && (v.snapshot || v.rootUser || v.snapInTx) {
								// quick, four threads: the writer's transaction body has no inner yield points (its lock
								// operations in DbImpl and bbolt remain scheduling points)
								return w.tx2(ctx, noYield)
							}
							return w.tx2(ctx, vsync.Yield)
						}); err != nil {
							cur.errs = append(cur.errs, "writer: "+err.Error())
						}
					})
				}
				if v.snapshot {
					vsync.Go0(func() {
						if _, _, err := db.Snapshot(dir + "/concurrent-snap.db"); err != nil {
							cur.errs = append(cur.errs, "snapshot: "+err.Error())
						}
					})
				}
				if v.snapInTx {
					_ = os.Remove(dir + "/intx-snap.db")
					vsync.Go0(func() {
						if err := db.View(func(tx *bbolt.Tx) error {
							cur.begin[3] = w.readTuple(tx, noYield)
							vsync.Yield("snapshotter:in-tx")
							_, _, err := db.SnapshotInTx(tx, dir+"/intx-snap.db")
							return err
						}); err != nil {
							cur.errs = append(cur.errs, "SnapshotInTx: "+err.Error())
						}
					})
				}
				if v.rootUser {
					vsync.Go0(func() {
						if err := db.View(func(tx *bbolt.Tx) error {
							cur.begin[2] = w.readTuple(tx, noYield)
							vsync.Yield("rootuser:in-tx")
							_, err := db.RootBucket(tx)
							// ... and the other helper a transaction function may call on the database handle (a migration asks
							// for the default snapshot path from inside its transaction)
							if p := db.GetDefaultSnapshotPath(); p == "" && err == nil {
								err = errors.New("GetDefaultSnapshotPath returned nothing")
							}
							return err
						}); err != nil {
							cur.errs = append(cur.errs, "root-bucket user: "+err.Error())
						}
					})
				}
			}
		}
		ex.Check = func(x *vsched.Execution) {
			rep.Count("transitions", int64(x.Steps))
			replay := map[string]interface{}{"variant": v.name, "choices": x.Choices(), "schedule": x.Schedule()}
			defer func() { _ = cur.db.Close() }()
			if len(x.Detached) > 0 {
				rep.Count("executions_with_a_thread_blocked_outside_the_scheduler", 1)
				replay["blocked_outside_scheduler"] = x.Detached
			}
			switch {
			case x.Hung != "":
				rep.Capped("execution blocked outside the scheduler: " + x.Hung)
				return
			case x.Diverged != "":
				rep.Violation("C17|harness-divergence", "replay diverged: "+x.Diverged, replay)
				return
			case x.Deadlock:
				var kinds []string
				for _, b := range x.Blocked {
					kinds = append(kinds, b[:strings.Index(b, "#")]+b[strings.Index(b, " blocked"):])
				}
				rep.Violation("C17|deadlock|"+v.name, v.name+": deadlock: "+strings.Join(x.Blocked, "; "), replay)
				return
			case len(x.Panics) > 0:
				rep.Violation("C17|panic|"+v.name, v.name+": panic: "+x.Panics[0], replay)
				return
			case len(cur.errs) > 0:
				rep.Violation("C17|error|"+v.name+"|"+cur.errs[0], v.name+": "+strings.Join(cur.errs, "; "), replay)
				return
			}
			seen := ""
			for _, r := range refs {
				if r.tuple == cur.tuple {
					seen = r.name
				}
			}
			if seen == "" {
				rep.Violation("C17|reader-saw-a-mixture|"+v.name, fmt.Sprintf("%s: the reader observed %q, which is neither the old nor the restored database in full", v.name, cur.tuple), replay)
			} else {
				rep.Outcome("reader-saw-" + seen)
			}
			var final *dump.Tree
			_ = cur.db.View(func(tx *bbolt.Tx) error { final = stripMeta(dump.Tx(tx)); return nil })
			switch {
			case v.twoRestores && final.Equal(refs[0].image):
				rep.Outcome("final=restored(B)")
			case final.Equal(refs[2].image):
				rep.Outcome("final=restored")
			case final.Equal(refs[3].image):
				rep.Outcome("final=restored+writer")
			default:
				rep.Violation("C17|final-state|"+v.name, v.name+": final database is neither the restored image nor restored+writer:\n"+dump.Diff(final, refs[3].image), replay)
			}
			if v.snapInTx {
				// the snapshot must hold exactly the state the snapshotting transaction saw when it began
				var want *dump.Tree
				wantName := ""
				for _, r := range refs {
					if r.tuple == cur.begin[3] {
						want, wantName = r.image, r.name
					}
				}
				sdb, err := bbolt.Open(dir+"/intx-snap.db", 0o600, &bbolt.Options{ReadOnly: true})
				switch {
				case want == nil:
					rep.Violation("C17|snapshot-in-tx|saw-a-mixture", fmt.Sprintf("%s: the snapshotting transaction began on %q, which is no committed state", v.name, cur.begin[3]), replay)
				case err != nil:
					rep.Violation("C17|snapshot-in-tx|unreadable", v.name+": the snapshot written by SnapshotInTx cannot be opened: "+err.Error(), replay)
				default:
					if got := stripMeta(dump.DB(sdb)); !got.Equal(want) {
						rep.Violation("C17|snapshot-in-tx|content", fmt.Sprintf("%s: the transaction began on the %s database but the snapshot it wrote holds something else:\n%s", v.name, wantName, dump.Diff(want, got)), replay)
					} else {
						rep.Outcome("snapshot-in-tx=" + wantName)
					}
				}
				if sdb != nil {
					_ = sdb.Close()
				}
			}
			if v.twoRestores {
				if cur.listeners != 2 {
					rep.Violation("C17|restore-listener-count|"+v.name, fmt.Sprintf("%s: restore listener ran %d times for two restores", v.name, cur.listeners), replay)
				}
				return
			}
			if cur.listeners != 1 {
				rep.Violation("C17|restore-listener-count|"+v.name, fmt.Sprintf("%s: restore listener ran %d times", v.name, cur.listeners), replay)
			}
		}
		ex.Explore()
		rep.Count("replay_determinism_checks", int64(ex.Replays))
		if len(ex.ReplayDiffs) > 0 {
			rep.Set("replay_divergences"+"["+v.name+"]", ex.ReplayDiffs)
			rep.Capped("a replayed choice sequence did not reproduce its schedule: nondeterminism the harness does not own (no verdict drawn from it)")
		}
		rep.Count("states", int64(ex.Executions))
		rep.Set("schedules["+v.name+"]", ex.Executions)
		rep.Set("alternatives_pruned_by_state_key["+v.name+"]", ex.Pruned)
		if ex.Capped {
			rep.Capped(v.name + ": execution cap hit")
		}
	}
	rep.Sample(map[string]interface{}{"serial_reader_tuple_old": refs[0].tuple, "serial_reader_tuple_restored": refs[2].tuple})
}

func c17MaxExecs(thorough bool) int {
	if v := os.Getenv("VERIF_C17_MAXEXECS"); v != "" {
		var n int
		fmt.Sscanf(v, "%d", &n)
		if n > 0 {
			return n
		}
	}
	if thorough {
		return 150000
	}
	return 60000
}

// brokenReader delivers data and then fails with a non-EOF error (a dropped connection).
type brokenReader struct {
	data []byte
	pos  int
}

func (b *brokenReader) Read(p []byte) (int, error) {
	if b.pos >= len(b.data) {
		return 0, errors.New("verif: snapshot stream broke off")
	}
	n := copy(p, b.data[b.pos:])
	b.pos += n
	return n, nil
}

// chunkReader delivers data in pieces of a fixed size.
type chunkReader struct {
	data        []byte
	chunk       int
	pos         int
	eofWithLast bool
}

func (c *chunkReader) Read(p []byte) (int, error) {
	if c.pos >= len(c.data) {
		return 0, io.EOF
	}
	n := c.chunk
	if n > len(p) {
		n = len(p)
	}
	if n > len(c.data)-c.pos {
		n = len(c.data) - c.pos
	}
	copy(p, c.data[c.pos:c.pos+n])
	c.pos += n
	if c.eofWithLast && c.pos >= len(c.data) {
		return n, io.EOF
	}
	return n, nil
}
