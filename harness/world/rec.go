// Package world wires real boltz stores for the scenario schemas. One generic record entity
// (Rec) with a field specification serves every scenario.
package world

import (
	"fmt"
	"sort"
	"time"

	"github.com/openziti/storage/ast"
	"github.com/openziti/storage/boltz"
)

type Kind int

const (
	KString     Kind = iota // non-null string (SetString)
	KStringP                // nullable string
	KInt64P                 // nullable int64
	KInt32P                 // nullable int32 (widening path)
	KFloat64P               // nullable float64
	KBoolP                  // nullable bool
	KTimeP                  // nullable time
	KStringList             // string set
	KMap                    // nested map
	KLinks                  // link collection managed through SetLinkedIds
	KReqString              // non-null, non-empty string written with PersistContext.SetRequiredString
)

// key returns the bucket key of the field.
func (f Field) key() string {
	if f.Key != "" {
		return f.Key
	}
	return f.Name
}

type Field struct {
	Name  string
	Kind  Kind
	Child bool   // field belongs to the child store part (only meaningful for child specs)
	Key   string // bucket key the field is stored under (default: Name)
}

// Rec is the generic entity. F holds field values: nil = null; otherwise string, int64, int32,
// float64, bool, time.Time, []string, map[string]interface{}.
type Rec struct {
	boltz.BaseExtEntity
	Type string
	F    map[string]interface{}
}

func (r *Rec) GetEntityType() string { return r.Type }

func NewRec(typ, id string) *Rec {
	r := &Rec{Type: typ, F: map[string]interface{}{}}
	r.Id = id
	return r
}

func (r *Rec) With(name string, v interface{}) *Rec {
	r.F[name] = v
	return r
}

func (r *Rec) CloneRec() *Rec {
	n := NewRec(r.Type, r.Id)
	n.IsSystem = r.IsSystem
	n.Tags = r.Tags
	for k, v := range r.F {
		n.F[k] = v
	}
	return n
}

// Spec describes a store.
type Spec struct {
	EntityType string
	BasePath   []string
	Fields     []Field
	Ext        bool // persist BaseExtEntity values (createdAt, updatedAt, tags, isSystem)
	Parent     *Store
	ChildPath  []string // for child stores: bucket path below the parent entity bucket
	Extended   bool
}

type strategy struct {
	spec  *Spec
	store *Store
}

func (s *strategy) NewEntity() *Rec {
	return NewRec(s.spec.EntityType, "")
}

func (s *strategy) FillEntity(e *Rec, b *boltz.TypedBucket) {
	if s.spec.Parent != nil {
		_, err := s.spec.Parent.LoadEntity(b.Tx(), e.Id, e)
		b.SetError(err)
		for _, f := range s.spec.Fields {
			if f.Child {
				s.fill(e, b, f)
			}
		}
		return
	}
	if s.spec.Ext {
		e.LoadBaseValues(b)
	}
	for _, f := range s.spec.Fields {
		s.fill(e, b, f)
	}
}

func (s *strategy) fill(e *Rec, b *boltz.TypedBucket, f Field) {
	switch f.Kind {
	case KString, KReqString:
		e.F[f.Name] = b.GetStringOrError(f.key())
	case KStringP:
		if v := b.GetString(f.key()); v != nil {
			e.F[f.Name] = *v
		} else {
			e.F[f.Name] = nil
		}
	case KInt64P:
		if v := b.GetInt64(f.key()); v != nil {
			e.F[f.Name] = *v
		} else {
			e.F[f.Name] = nil
		}
	case KInt32P:
		if v := b.GetInt32(f.key()); v != nil {
			e.F[f.Name] = *v
		} else {
			e.F[f.Name] = nil
		}
	case KFloat64P:
		if v := b.GetFloat64(f.key()); v != nil {
			e.F[f.Name] = *v
		} else {
			e.F[f.Name] = nil
		}
	case KBoolP:
		if v := b.GetBool(f.key()); v != nil {
			e.F[f.Name] = *v
		} else {
			e.F[f.Name] = nil
		}
	case KTimeP:
		if v := b.GetTime(f.key()); v != nil {
			e.F[f.Name] = *v
		} else {
			e.F[f.Name] = nil
		}
	case KStringList:
		e.F[f.Name] = b.GetStringList(f.key())
	case KMap:
		e.F[f.Name] = b.GetMap(f.key())
	case KLinks:
		e.F[f.Name] = b.GetStringList(f.key())
	}
}

func (s *strategy) PersistEntity(e *Rec, ctx *boltz.PersistContext) {
	if s.spec.Parent != nil {
		s.spec.Parent.GetEntityStrategy().PersistEntity(e, ctx.GetParentContext())
		for _, f := range s.spec.Fields {
			if f.Child {
				persistField(e, ctx, f)
			}
		}
		return
	}
	if s.spec.Ext {
		e.SetBaseValues(ctx)
	}
	for _, f := range s.spec.Fields {
		persistField(e, ctx, f)
	}
}

func persistField(e *Rec, ctx *boltz.PersistContext, f Field) {
	v := e.F[f.Name]
	switch f.Kind {
	case KString:
		sv, _ := v.(string)
		ctx.SetString(f.key(), sv)
	case KReqString:
		sv, _ := v.(string)
		ctx.SetRequiredString(f.key(), sv)
	case KStringP:
		if v == nil {
			ctx.SetStringP(f.key(), nil)
		} else {
			sv := v.(string)
			ctx.SetStringP(f.key(), &sv)
		}
	case KInt64P:
		if ctx.ProceedWithSet(f.key()) {
			if v == nil {
				ctx.Bucket.SetNil(f.key())
			} else {
				ctx.Bucket.SetInt64(f.key(), v.(int64), nil)
			}
		}
	case KInt32P:
		if ctx.ProceedWithSet(f.key()) {
			if v == nil {
				ctx.Bucket.SetNil(f.key())
			} else {
				ctx.Bucket.SetInt32(f.key(), v.(int32), nil)
			}
		}
	case KFloat64P:
		if ctx.ProceedWithSet(f.key()) {
			if v == nil {
				ctx.Bucket.SetNil(f.key())
			} else {
				ctx.Bucket.SetFloat64(f.key(), v.(float64), nil)
			}
		}
	case KBoolP:
		if ctx.ProceedWithSet(f.key()) {
			if v == nil {
				ctx.Bucket.SetNil(f.key())
			} else {
				ctx.Bucket.SetBool(f.key(), v.(bool), nil)
			}
		}
	case KTimeP:
		if v == nil {
			ctx.SetTimeP(f.key(), nil)
		} else {
			tv := v.(time.Time)
			ctx.SetTimeP(f.key(), &tv)
		}
	case KStringList:
		lv, _ := v.([]string)
		ctx.SetStringList(f.key(), lv)
	case KMap:
		mv, _ := v.(map[string]interface{})
		ctx.SetMap(f.key(), mv)
	case KLinks:
		lv, _ := v.([]string)
		ctx.SetLinkedIds(f.key(), append([]string{}, lv...))
	}
}

// Store is a real boltz store over Rec.
type Store struct {
	*boltz.BaseStore[*Rec]
	Spec *Spec
	// StrategyVeto, when set on a child store, is asked before the store's child-store strategy handles an
	// update ("update") or delete ("delete") arriving through the parent store; a non-nil answer is returned
	// as the strategy's refusal.
	StrategyVeto func(op string, id string) error
}

// vetoableStrategy is the library's ChildStoreUpdateHandler behind an optional refusal hook.
type vetoableStrategy struct {
	inner *boltz.ChildStoreUpdateHandler[*Rec, *Rec]
	s     *Store
}

func (v *vetoableStrategy) HandleUpdate(ctx boltz.MutateContext, e *Rec, checker boltz.FieldChecker) (bool, error) {
	if v.s.StrategyVeto != nil {
		if err := v.s.StrategyVeto("update", e.Id); err != nil {
			return true, err
		}
	}
	return v.inner.HandleUpdate(ctx, e, checker)
}

func (v *vetoableStrategy) HandleDelete(ctx boltz.MutateContext, e *Rec) error {
	if v.s.StrategyVeto != nil {
		if err := v.s.StrategyVeto("delete", e.Id); err != nil {
			return err
		}
	}
	return v.inner.HandleDelete(ctx, e)
}

func (v *vetoableStrategy) GetStore() boltz.Store { return v.inner.GetStore() }

func NewStore(spec *Spec) *Store {
	st := &strategy{spec: spec}
	def := boltz.StoreDefinition[*Rec]{
		EntityType:     spec.EntityType,
		EntityStrategy: st,
		BasePath:       spec.BasePath,
		EntityNotFoundF: func(id string) error {
			return boltz.NewNotFoundError(boltz.GetSingularEntityType(spec.EntityType), "id", id)
		},
	}
	if spec.Parent != nil {
		def.EntityType = ""
		def.BasePath = spec.ChildPath
		def.Parent = spec.Parent
		def.ParentMapper = func(e boltz.Entity) boltz.Entity { return e }
	}
	s := &Store{BaseStore: boltz.NewBaseStore(def), Spec: spec}
	st.store = s
	s.InitImpl(s)
	if spec.Extended {
		s.Extended()
	}
	if spec.Parent != nil {
		spec.EntityType = spec.Parent.GetEntityType()
		parent := spec.Parent
		parent.RegisterChildStoreStrategy(&vetoableStrategy{s: s, inner: &boltz.ChildStoreUpdateHandler[*Rec, *Rec]{
			Store: s,
			Mapper: func(ctx boltz.MutateContext, p *Rec) (*Rec, bool) {
				// route to the child store only when child data exists (not merely because the store is extended)
				if s.GetEntityBucket(ctx.Tx(), []byte(p.Id)) == nil {
					return nil, false
				}
				c, found, _ := s.FindById(ctx.Tx(), p.Id)
				if !found || c == nil {
					return nil, false
				}
				// carry the caller's (parent-level) values; child fields keep their stored values
				for _, f := range parent.Spec.Fields {
					c.F[f.Name] = p.F[f.Name]
				}
				c.Tags = p.Tags
				c.IsSystem = p.IsSystem
				return c, true
			},
		}})
	}
	return s
}

// NodeType maps a field kind to the filter type.
func NodeType(k Kind) ast.NodeType {
	switch k {
	case KString, KStringP, KReqString:
		return ast.NodeTypeString
	case KInt64P, KInt32P:
		return ast.NodeTypeInt64
	case KFloat64P:
		return ast.NodeTypeFloat64
	case KBoolP:
		return ast.NodeTypeBool
	case KTimeP:
		return ast.NodeTypeDatetime
	}
	return ast.NodeTypeString
}

// AddScalarSymbols registers the id symbol and one symbol per scalar field; returns them by name.
func (s *Store) AddScalarSymbols() map[string]boltz.EntitySymbol {
	out := map[string]boltz.EntitySymbol{}
	out["id"] = s.AddIdSymbol("id", ast.NodeTypeString)
	for _, f := range s.Spec.Fields {
		switch f.Kind {
		case KStringList, KMap, KLinks:
			continue
		}
		out[f.Name] = s.AddSymbol(f.Name, NodeType(f.Kind))
	}
	return out
}

// Typed value encodings (independent re-statement of the storage format, used by reference models).

func EncString(s string) []byte { return append([]byte{5}, []byte(s)...) }
func EncNil() []byte            { return []byte{7} }
func EncBool(b bool) []byte {
	if b {
		return []byte{1, 1}
	}
	return []byte{1, 0}
}
func EncInt64(v int64) []byte {
	b := make([]byte, 9)
	b[0] = 3
	u := uint64(v)
	for i := 0; i < 8; i++ {
		b[1+i] = byte(u >> (8 * i))
	}
	return b
}
func EncInt32(v int32) []byte {
	b := make([]byte, 5)
	b[0] = 2
	u := uint32(v)
	for i := 0; i < 4; i++ {
		b[1+i] = byte(u >> (8 * i))
	}
	return b
}

// TypedKey is the key used for string set members.
func TypedKey(s string) string { return string(append([]byte{5}, []byte(s)...)) }

func SortedCopy(l []string) []string {
	out := append([]string{}, l...)
	sort.Strings(out)
	return out
}

func Dedup(l []string) []string {
	m := map[string]bool{}
	var out []string
	for _, s := range l {
		if !m[s] {
			m[s] = true
			out = append(out, s)
		}
	}
	sort.Strings(out)
	return out
}

func StrP(s string) *string { return &s }

func Fmt(v interface{}) string {
	if v == nil {
		return "null"
	}
	return fmt.Sprintf("%v", v)
}
