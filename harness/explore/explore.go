// Package explore is engine E1: explicit-state breadth-first search over real bolt databases.
//
// A state is a bolt file. A transition is one transaction program (1..k store operations) run
// through the real Db.Update on the real stores. Every transition is first executed inside a
// transaction that is rolled back after the post-state was dumped (so the source state file is
// never modified); every *new* canonical state is then materialised by copying the file and
// committing the same program for real, and the committed dump must equal the in-transaction dump.
// The same program is applied to a reference model; outcome classes and the complete database
// image (rendered from the model) are compared on every transition.
package explore

import (
	"context"
	"errors"
	"fmt"
	"io"
	"os"
	"path/filepath"
	"runtime"
	"runtime/debug"
	"sort"
	"strings"
	"sync"
	"sync/atomic"

	"github.com/openziti/storage/boltz"
	"go.etcd.io/bbolt"
	"verif/dump"
	"verif/report"
)

// Model is the reference model of one scenario.
type Model interface {
	Clone() Model
	// Render produces the complete expected database image (after normalisation by Scenario.Normalize).
	Render() *dump.Tree
}

// Op is one store operation: how to run it on the implementation and on the model.
type Op struct {
	Name string
	// System selects a system mutate context for the whole transaction containing this op (C16).
	Do func(ctx boltz.MutateContext) error
	// Apply mutates the model if the operation is acceptable and returns the set of acceptable
	// outcome classes: {"ok"} (model mutated) or one or more error classes (model must be discarded).
	Apply func(m Model) []string
}

// Scenario wires real stores and supplies alphabet, model and oracles.
type Scenario interface {
	Name() string
	// InitDb prepares a fresh database (buckets, index initialisation).
	InitDb(db *boltz.DbImpl) error
	NewModel() Model
	Ops() []Op
	// Classify maps an implementation error to an outcome class.
	Classify(err error) string
	// Normalize maps a raw dump to the form compared with Model.Render (e.g. drops empty
	// entity sub-buckets, which carry no meaning for any property).
	Normalize(t *dump.Tree) *dump.Tree
	// Invariant checks API-level reads against the model inside the (still open) transaction.
	Invariant(tx *bbolt.Tx, m Model) error
	// Context returns the mutate context to use for a program (ordinary unless overridden).
	Context(program []int) boltz.MutateContext
}

type Config struct {
	MaxDepth   int   // BFS depth bound (0 = until closure)
	MaxStates  int   // cap on number of states (0 = none)
	MaxTrans   int64 // cap on transitions
	Programs   [][]int
	Workers    int
	PostCommit func(db *boltz.DbImpl, st *State, rep *report.Report) // optional extra check on each new committed state
	// SkipRejectedPrefix: do not execute a multi-operation program whose reference model already rejects
	// a proper prefix - it is the same execution as that shorter program (the transaction function returns
	// at the first error). Only set this when the single operations are explored on the same state space.
	SkipRejectedPrefix bool
	// BatchRejected: programs for which a rejection is additionally exercised through Db.Batch (10 ms each)
	BatchRejected func(program []int) bool
	// PerTransition is an optional extra oracle run inside the open transaction after an accepted program.
	PerTransition func(tx *bbolt.Tx, pre *State, program []int, post *dump.Tree, m Model) error
	KeepFiles     bool
}

type State struct {
	Id      int
	Path    string
	Model   Model
	Hash    string
	Depth   int
	Parent  *State
	Via     []int
	History []string
}

var errRollback = errors.New("verif: rollback after observation")

type succ struct {
	prog int
	hash string
}

type Explorer struct {
	Sc     Scenario
	Cfg    Config
	Rep    *report.Report
	Dir    string
	States []*State
	byHash map[string]*State
	ops    []Op
	trans  int64
}

var cleanOnce sync.Once

// cleanStale removes scratch directories of harness processes that no longer exist.
func cleanStale(base string) {
	entries, err := os.ReadDir(base)
	if err != nil {
		return
	}
	for _, e := range entries {
		var pid int
		if n, _ := fmt.Sscanf(e.Name(), "verif-%d-", &pid); n == 1 && pid > 0 {
			if _, err := os.Stat(fmt.Sprintf("/proc/%d", pid)); err != nil {
				_ = os.RemoveAll(filepath.Join(base, e.Name()))
			}
		}
	}
}

func TmpDir(name string) string {
	base := "/dev/shm"
	if st, err := os.Stat(base); err != nil || !st.IsDir() {
		base = os.TempDir()
	}
	cleanOnce.Do(func() { cleanStale(base) })
	clean := strings.Map(func(r rune) rune {
		if (r >= 'a' && r <= 'z') || (r >= 'A' && r <= 'Z') || (r >= '0' && r <= '9') {
			return r
		}
		return '_'
	}, name)
	if len(clean) > 24 {
		clean = clean[:24]
	}
	d, err := os.MkdirTemp(base, fmt.Sprintf("verif-%d-%s-", os.Getpid(), clean))
	if err != nil {
		panic(err)
	}
	return d
}

func CopyFile(src, dst string) error {
	in, err := os.Open(src)
	if err != nil {
		return err
	}
	defer in.Close()
	out, err := os.Create(dst)
	if err != nil {
		return err
	}
	if _, err = io.Copy(out, in); err != nil {
		out.Close()
		return err
	}
	return out.Close()
}

func (e *Explorer) progName(p []int) string {
	names := make([]string, len(p))
	for i, o := range p {
		names[i] = e.ops[o].Name
	}
	return strings.Join(names, " ; ")
}

func (e *Explorer) history(s *State, extra []int) []string {
	var h []string
	h = append(h, s.History...)
	if extra != nil {
		h = append(h, "TX{ "+e.progName(extra)+" }")
	}
	return h
}

// RunProgram executes a program on the implementation inside one Db.Update.
// If commit is false the transaction is rolled back after observe ran.
func RunProgram(db *boltz.DbImpl, ctx boltz.MutateContext, ops []Op, program []int, commit bool, observe func(tx *bbolt.Tx) error) (opErr error, obsErr error) {
	ran := false
	err := db.Update(ctx, func(ctx boltz.MutateContext) (result error) {
		// a panic inside an operation or inside the API reads of the oracle is a finding, not a crash of
		// the checker: it is reported like a failed operation / failed read (the transaction rolls back)
		phase := "operation"
		defer func() {
			if r := recover(); r != nil {
				perr := fmt.Errorf("verif-panic in %s: %v\n%s", phase, r, trimStack(debug.Stack()))
				if phase == "operation" {
					opErr = perr
				} else {
					obsErr = perr
				}
				result = errRollback
				if phase == "operation" {
					result = perr
				}
			}
		}()
		for _, o := range program {
			if err := ops[o].Do(ctx); err != nil {
				opErr = err
				return err
			}
		}
		ran = true
		phase = "API reads after the transaction body"
		if observe != nil {
			obsErr = observe(ctx.Tx())
		}
		if !commit {
			return errRollback
		}
		return nil
	})
	if opErr == nil && err != nil && !errors.Is(err, errRollback) {
		opErr = err
	}
	_ = ran
	return opErr, obsErr
}

func (e *Explorer) violation(kind string, s *State, program []int, msg string, detail ...string) {
	hist := e.history(s, program)
	// the signature names the failing program, not the history that led to the state, so one
	// defect reached from many states is one finding; the (shortest, BFS) history is in the replay
	sig := fmt.Sprintf("%s|%s|%s", e.Sc.Name(), kind, e.progName(program))
	if len(detail) > 0 {
		sig += "|" + strings.Join(detail, "|")
	}
	e.Rep.Violation(sig, msg, map[string]interface{}{
		"scenario": e.Sc.Name(),
		"kind":     kind,
		"history":  hist,
	})
}

// Run explores from the empty initialised database.
func (e *Explorer) Run() {
	e.ops = e.Sc.Ops()
	if e.Cfg.Workers <= 0 {
		e.Cfg.Workers = runtime.NumCPU()
	}
	e.Dir = TmpDir(e.Sc.Name())
	if !e.Cfg.KeepFiles {
		defer os.RemoveAll(e.Dir)
	}
	e.byHash = map[string]*State{}

	// initial state
	p0 := filepath.Join(e.Dir, "s0.db")
	db, err := boltz.Open(p0, "root")
	if err != nil {
		panic(err)
	}
	if err := e.Sc.InitDb(db); err != nil {
		panic(err)
	}
	var t0 *dump.Tree
	_ = db.View(func(tx *bbolt.Tx) error { t0 = dump.Tx(tx); return nil })
	_ = db.Close()
	s0 := &State{Id: 0, Path: p0, Model: e.Sc.NewModel(), Hash: t0.Hash()}
	if d := dump.Diff(e.Sc.Normalize(t0), s0.Model.Render()); d != "" {
		e.violation("initial-state-mismatch", s0, nil, "initial database differs from model:\n"+d)
	}
	e.States = append(e.States, s0)
	e.byHash[s0.Hash] = s0

	level := []*State{s0}
	depth := 0
	closure := false
	for len(level) > 0 {
		if e.Cfg.MaxDepth > 0 && depth >= e.Cfg.MaxDepth {
			e.Rep.Capped(fmt.Sprintf("%s: depth bound %d reached with %d frontier states unexpanded", e.Sc.Name(), e.Cfg.MaxDepth, len(level)))
			break
		}
		if e.Rep.TooMany() {
			e.Rep.Capped("stopped after too many violations")
			break
		}
		results := make([][]succ, len(level))
		var next int64 = -1
		var wg sync.WaitGroup
		var capHit atomic.Bool
		for w := 0; w < e.Cfg.Workers; w++ {
			wg.Add(1)
			go func() {
				defer wg.Done()
				for {
					i := int(atomic.AddInt64(&next, 1))
					if i >= len(level) {
						return
					}
					if e.Cfg.MaxTrans > 0 && atomic.LoadInt64(&e.trans) >= e.Cfg.MaxTrans {
						capHit.Store(true)
						return
					}
					results[i] = e.expand(level[i])
				}
			}()
		}
		wg.Wait()
		if capHit.Load() {
			e.Rep.Capped(fmt.Sprintf("%s: transition cap %d hit at depth %d", e.Sc.Name(), e.Cfg.MaxTrans, depth))
		}

		// merge deterministically, materialise new states
		var newStates []*State
		for i, st := range level {
			for _, sc := range results[i] {
				if _, ok := e.byHash[sc.hash]; ok {
					continue
				}
				if e.Cfg.MaxStates > 0 && len(e.States) >= e.Cfg.MaxStates {
					capHit.Store(true)
					continue
				}
				nm := st.Model.Clone()
				for _, o := range e.Cfg.Programs[sc.prog] {
					e.ops[o].Apply(nm)
				}
				ns := &State{
					Id:     len(e.States),
					Model:  nm,
					Hash:   sc.hash,
					Depth:  depth + 1,
					Parent: st,
					Via:    e.Cfg.Programs[sc.prog],
				}
				ns.History = e.history(st, ns.Via)
				ns.Path = filepath.Join(e.Dir, fmt.Sprintf("s%d.db", ns.Id))
				e.States = append(e.States, ns)
				e.byHash[ns.Hash] = ns
				newStates = append(newStates, ns)
			}
		}
		if e.Cfg.MaxStates > 0 && len(e.States) >= e.Cfg.MaxStates && capHit.Load() {
			e.Rep.Capped(fmt.Sprintf("%s: state cap %d hit at depth %d", e.Sc.Name(), e.Cfg.MaxStates, depth))
		}
		e.materialise(newStates)
		depth++
		level = newStates
		if len(newStates) == 0 && !capHit.Load() {
			closure = true
		}
		if capHit.Load() {
			break
		}
	}
	e.Rep.Count("states", int64(len(e.States)))
	e.Rep.Count("transitions", atomic.LoadInt64(&e.trans))
	e.Rep.Count("traces_validated_against_impl", atomic.LoadInt64(&e.trans))
	e.Rep.Set("closure_"+e.Sc.Name(), closure)
	e.Rep.Set("depth_"+e.Sc.Name(), depth)
	e.Rep.Set("states_"+e.Sc.Name(), len(e.States))
	e.Rep.Set("programs_"+e.Sc.Name(), len(e.Cfg.Programs))
	if len(e.States) > 1 {
		e.Rep.Sample(map[string]interface{}{"scenario": e.Sc.Name(), "history_of_last_state": e.States[len(e.States)-1].History})
	}
}

func (e *Explorer) materialise(states []*State) {
	var next int64 = -1
	var wg sync.WaitGroup
	for w := 0; w < e.Cfg.Workers; w++ {
		wg.Add(1)
		go func() {
			defer wg.Done()
			for {
				i := int(atomic.AddInt64(&next, 1))
				if i >= len(states) {
					return
				}
				ns := states[i]
				if err := CopyFile(ns.Parent.Path, ns.Path); err != nil {
					panic(err)
				}
				db, err := boltz.Open(ns.Path, "root")
				if err != nil {
					panic(err)
				}
				opErr, _ := RunProgram(db, e.Sc.Context(ns.Via), e.ops, ns.Via, true, nil)
				var got *dump.Tree
				_ = db.View(func(tx *bbolt.Tx) error { got = dump.Tx(tx); return nil })
				if opErr != nil {
					e.violation("commit-differs-from-dry-run", ns.Parent, ns.Via, fmt.Sprintf("program succeeded in the observed transaction but failed when committed: %v", opErr))
				} else if got.Hash() != ns.Hash {
					e.violation("commit-differs-from-dry-run", ns.Parent, ns.Via, "committed database differs from the in-transaction image; committed image:\n"+got.String())
				}
				// API reads once more on the committed pages, in a read transaction (the transition oracle
				// read them inside the still-open write transaction)
				if opErr == nil {
					if err := db.View(func(tx *bbolt.Tx) error { return e.Sc.Invariant(tx, ns.Model) }); err != nil {
						e.violation("api-invariant-after-commit", ns.Parent, ns.Via, "reads on the committed state disagree with the reference model: "+err.Error())
					}
					e.Rep.Count("committed_states_read_back", 1)
				}
				if e.Cfg.PostCommit != nil {
					e.Cfg.PostCommit(db, ns, e.Rep)
				}
				_ = db.Close()
			}
		}()
	}
	wg.Wait()
}

func (e *Explorer) expand(s *State) []succ {
	db, err := boltz.Open(s.Path, "root")
	if err != nil {
		panic(err)
	}
	defer db.Close()
	var pre *dump.Tree
	_ = db.View(func(tx *bbolt.Tx) error { pre = dump.Tx(tx); return nil })
	var out []succ
	seen := map[string]bool{}
	for pi, program := range e.Cfg.Programs {
		if e.Cfg.MaxTrans > 0 && atomic.LoadInt64(&e.trans) >= e.Cfg.MaxTrans {
			break
		}
		m := s.Model.Clone()
		var classes []string
		rejectedAt := -1
		for oi, o := range program {
			classes = e.ops[o].Apply(m)
			if !(len(classes) == 1 && classes[0] == "ok") {
				rejectedAt = oi
				break
			}
		}
		modelOk := len(classes) == 1 && classes[0] == "ok"
		if e.Cfg.SkipRejectedPrefix && rejectedAt >= 0 && rejectedAt < len(program)-1 {
			e.Rep.Count("programs_skipped_same_as_rejected_prefix", 1)
			continue
		}
		atomic.AddInt64(&e.trans, 1)

		var post *dump.Tree
		opErr, obsErr := RunProgram(db, e.Sc.Context(program), e.ops, program, false, func(tx *bbolt.Tx) error {
			post = dump.Tx(tx)
			if !modelOk {
				return nil
			}
			if err := e.Sc.Invariant(tx, m); err != nil {
				return err
			}
			if e.Cfg.PerTransition != nil {
				return e.Cfg.PerTransition(tx, s, program, post, m)
			}
			return nil
		})
		implClass := "ok"
		if opErr != nil {
			implClass = e.Sc.Classify(opErr)
		}
		e.Rep.Outcome(implClass)

		if opErr != nil {
			// rejected: database must be byte-identical
			var after *dump.Tree
			_ = db.View(func(tx *bbolt.Tx) error { after = dump.Tx(tx); return nil })
			if after.Hash() != s.Hash {
				e.violation("rejected-transaction-changed-state", s, program, fmt.Sprintf("transaction failed with %q (%v) but the database changed:\n%s", implClass, opErr, dump.Diff(pre, after)))
			}
		}
		// an error whose text the harness cannot classify (e.g. a reworded message) still counts as the rejection the
		// model expects: accepted-vs-rejected and every recognised class are judged, wording is not
		classOk := contains(classes, implClass)
		if !classOk && opErr != nil && !modelOk && strings.HasPrefix(implClass, "other:") && !strings.Contains(implClass, "verif-") {
			classOk = true
			e.Rep.Count("rejections_with_unclassified_error_text", 1)
		}
		if modelOk != (opErr == nil) || (opErr != nil && !classOk) {
			e.violation("outcome-mismatch", s, program, fmt.Sprintf("implementation outcome %q (err=%v), reference model allows %v", implClass, opErr, classes), "impl="+implClass, fmt.Sprintf("model=%v", classes))
			continue
		}
		if opErr != nil {
			// the same rejected program through Db.Batch: bbolt runs a failed batch function a second time on its
			// own (same mutate context), the refusal must survive that and the database must stay unchanged
			if e.Cfg.BatchRejected != nil && e.Cfg.BatchRejected(program) && !contains(classes, "skip") {
				var bErr error
				ctx := e.Sc.Context(program)
				err := db.Batch(ctx, func(ctx boltz.MutateContext) error {
					for _, o := range program {
						if err := e.ops[o].Do(ctx); err != nil {
							bErr = err
							return err
						}
					}
					return nil
				})
				e.Rep.Count("rejected_programs_through_batch", 1)
				bClass := "ok"
				if err != nil {
					bClass = e.Sc.Classify(err)
				}
				var after *dump.Tree
				_ = db.View(func(tx *bbolt.Tx) error { after = dump.Tx(tx); return nil })
				if err == nil || !contains(classes, bClass) {
					e.violation("outcome-mismatch-through-batch", s, program, fmt.Sprintf("through Db.Batch the outcome is %q (err=%v, store call err=%v); through Db.Update it is %q; reference model allows %v", bClass, err, bErr, implClass, classes), "impl="+bClass, fmt.Sprintf("model=%v", classes))
				}
				if after.Hash() != s.Hash {
					e.violation("rejected-batch-changed-state", s, program, "Db.Batch of a rejected program changed the database:\n"+dump.Diff(pre, after))
					// the state file is no longer the state: stop expanding it
					break
				}
			}
			continue
		}
		if obsErr != nil {
			e.violation("api-invariant", s, program, obsErr.Error())
			continue
		}
		want := m.Render()
		got := e.Sc.Normalize(post)
		if !got.Equal(want) {
			e.violation("state-mismatch", s, program, "database image differs from the image derived from the reference model (- impl, + model):\n"+dump.Diff(got, want))
			continue
		}
		h := post.Hash()
		if h == s.Hash || seen[h] {
			continue
		}
		seen[h] = true
		if _, known := e.byHash[h]; known { // byHash is only written between expansion phases
			continue
		}
		out = append(out, succ{prog: pi, hash: h})
	}
	return out
}

func contains(l []string, s string) bool {
	for _, x := range l {
		if x == s {
			return true
		}
	}
	return false
}

// SingleOps returns all one-operation programs.
func SingleOps(n int) [][]int {
	out := make([][]int, n)
	for i := range out {
		out[i] = []int{i}
	}
	return out
}

// Pairs returns all one- and two-operation programs.
func Pairs(n int) [][]int {
	out := SingleOps(n)
	for i := 0; i < n; i++ {
		for j := 0; j < n; j++ {
			out = append(out, []int{i, j})
		}
	}
	return out
}

// OrdinaryContext is the default context factory.
func OrdinaryContext() boltz.MutateContext {
	return boltz.NewMutateContext(context.Background())
}

// SortedKeys is a small helper for deterministic iteration.
func SortedKeys[V any](m map[string]V) []string {
	keys := make([]string, 0, len(m))
	for k := range m {
		keys = append(keys, k)
	}
	sort.Strings(keys)
	return keys
}

func trimStack(b []byte) string {
	lines := strings.Split(string(b), "\n")
	var keep []string
	for _, l := range lines {
		if strings.Contains(l, "/repo/") || strings.Contains(l, "panic") {
			keep = append(keep, strings.TrimSpace(l))
		}
		if len(keep) >= 8 {
			break
		}
	}
	return strings.Join(keep, " | ")
}
