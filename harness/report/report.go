// Package report collects coverage counts, violations and known findings for one check run
// and writes /verif/evidence/<id>.json plus replay artefacts.
package report

import (
	"crypto/sha1"
	"encoding/hex"
	"encoding/json"
	"fmt"
	"os"
	"path/filepath"
	"sort"
	"strconv"
	"strings"
	"sync"
	"time"
)

// Root is the /verif directory (evidence/, replays/, known_findings.json live here).
var Root = func() string {
	if r := os.Getenv("VERIF_ROOT"); r != "" {
		return r
	}
	return "/verif"
}()

type KnownEntry struct {
	Property  string `json:"property"`
	Signature string `json:"signature"`
	What      string `json:"what"`
}

type FixedEntry struct {
	Property string `json:"property"`
	Commit   string `json:"commit"`
	What     string `json:"what"`
	Line     string `json:"line"`
}

type KnownFile struct {
	Known []KnownEntry `json:"known"`
	Fixed []FixedEntry `json:"fixed"`
}

func LoadKnown() KnownFile {
	var kf KnownFile
	data, err := os.ReadFile(filepath.Join(Root, "known_findings.json"))
	if err != nil {
		return kf
	}
	if err := json.Unmarshal(data, &kf); err != nil {
		fmt.Fprintf(os.Stderr, "known_findings.json unreadable: %v\n", err)
		os.Exit(2)
	}
	return kf
}

type Violation struct {
	Signature string      `json:"signature"`
	Message   string      `json:"message"`
	Replay    interface{} `json:"replay"`
	Path      string      `json:"path"`
}

type Report struct {
	mu         sync.Mutex
	Property   string
	Tier       string
	Seed       int64
	Level      string
	start      time.Time
	cov        map[string]interface{}
	counters   map[string]int64
	samples    []interface{}
	maxSamples int
	outcomes   map[string]int64
	distinct   map[string]struct{}
	violations []Violation
	seenSig    map[string]bool
	known      []KnownEntry
	knownHit   map[string]int64
	assume     []string
	Exhaustive bool
	capNotes   []string
	MaxViol    int
}

func New(property, tier, level string) *Report {
	seed := int64(0)
	if s := os.Getenv("VERIF_SEED"); s != "" {
		if v, err := strconv.ParseInt(s, 10, 64); err == nil {
			seed = v
		}
	}
	r := &Report{
		Property:   property,
		Tier:       tier,
		Seed:       seed,
		Level:      level,
		start:      time.Now(),
		cov:        map[string]interface{}{},
		counters:   map[string]int64{},
		maxSamples: 12,
		outcomes:   map[string]int64{},
		distinct:   map[string]struct{}{},
		seenSig:    map[string]bool{},
		knownHit:   map[string]int64{},
		Exhaustive: true,
		MaxViol:    25,
		assume:     []string{"bbolt (storage engine) and the Go runtime are trusted"},
	}
	if s := os.Getenv("VERIF_MAXVIOL"); s != "" {
		if v, err := strconv.Atoi(s); err == nil {
			r.MaxViol = v
		}
	}
	for _, k := range LoadKnown().Known {
		if k.Property == property {
			r.known = append(r.known, k)
		}
	}
	return r
}

func (r *Report) Assume(s string) { r.assume = append(r.assume, s) }

// Count adds to a named counter (reported under coverage).
func (r *Report) Count(name string, n int64) {
	r.mu.Lock()
	r.counters[name] += n
	r.mu.Unlock()
}

func (r *Report) Get(name string) int64 {
	r.mu.Lock()
	defer r.mu.Unlock()
	return r.counters[name]
}

// Set stores an arbitrary coverage key.
func (r *Report) Set(name string, v interface{}) {
	r.mu.Lock()
	r.cov[name] = v
	r.mu.Unlock()
}

// Outcome counts an observed outcome class (accepted, each error class, ...).
func (r *Report) Outcome(class string) {
	r.mu.Lock()
	r.outcomes[class]++
	r.mu.Unlock()
}

// Distinct records a distinct non-trivial case key.
func (r *Report) Distinct(key string) {
	r.mu.Lock()
	if len(r.distinct) < 5_000_000 {
		r.distinct[key] = struct{}{}
	}
	r.mu.Unlock()
}

func (r *Report) Sample(s interface{}) {
	r.mu.Lock()
	if len(r.samples) < r.maxSamples {
		r.samples = append(r.samples, s)
	}
	r.mu.Unlock()
}

// Capped records that an internal budget stopped enumeration (the run is then not exhaustive).
func (r *Report) Capped(note string) {
	r.mu.Lock()
	r.Exhaustive = false
	r.capNotes = append(r.capNotes, note)
	r.mu.Unlock()
}

// TooMany reports whether enough violations were collected to stop early.
func (r *Report) TooMany() bool {
	r.mu.Lock()
	defer r.mu.Unlock()
	return len(r.violations) >= r.MaxViol
}

func (r *Report) matchKnown(sig string) *KnownEntry {
	for i := range r.known {
		k := &r.known[i]
		if k.Signature == sig {
			return k
		}
		if strings.HasSuffix(k.Signature, "*") && strings.HasPrefix(sig, strings.TrimSuffix(k.Signature, "*")) {
			return k
		}
	}
	return nil
}

// Violation records a violation with a stable signature. Known findings are counted, not failed.
// Returns true if it is a new (unlisted) violation.
func (r *Report) Violation(sig, msg string, replay interface{}) bool {
	r.mu.Lock()
	defer r.mu.Unlock()
	if k := r.matchKnown(sig); k != nil {
		r.knownHit[k.Signature]++
		return false
	}
	if r.seenSig[sig] {
		r.counters["violations_duplicate_signature"]++
		return true
	}
	r.seenSig[sig] = true
	if len(r.violations) >= r.MaxViol {
		r.counters["violations_dropped"]++
		return true
	}
	r.violations = append(r.violations, Violation{Signature: sig, Message: msg, Replay: replay})
	return true
}

func (r *Report) NumViolations() int {
	r.mu.Lock()
	defer r.mu.Unlock()
	return len(r.violations)
}

// Finish writes evidence and replays, prints VIOLATION / KNOWN-FINDING lines and returns the exit code.
func (r *Report) Finish() int {
	r.mu.Lock()
	defer r.mu.Unlock()
	_ = os.MkdirAll(filepath.Join(Root, "evidence"), 0o755)
	_ = os.MkdirAll(filepath.Join(Root, "replays"), 0o755)

	for i := range r.violations {
		v := &r.violations[i]
		h := sha1.Sum([]byte(v.Signature))
		name := fmt.Sprintf("%s-%s.json", r.Property, hex.EncodeToString(h[:6]))
		v.Path = filepath.Join(Root, "replays", name)
		data, _ := json.MarshalIndent(map[string]interface{}{
			"property":  r.Property,
			"tier":      r.Tier,
			"signature": v.Signature,
			"message":   v.Message,
			"replay":    v.Replay,
		}, "", " ")
		_ = os.WriteFile(v.Path, data, 0o644)
	}

	cov := map[string]interface{}{}
	for k, v := range r.cov {
		cov[k] = v
	}
	for k, v := range r.counters {
		cov[k] = v
	}
	cov["samples"] = r.samples
	if len(r.samples) == 0 {
		cov["samples"] = []interface{}{"(no sample recorded)"}
	}
	cov["outcome_classes"] = r.outcomes
	cov["distinct_outcomes"] = len(r.outcomes)
	if _, ok := cov["distinct_nontrivial"]; !ok {
		cov["distinct_nontrivial"] = len(r.distinct)
	}
	cov["exhaustive"] = r.Exhaustive
	if len(r.capNotes) > 0 {
		cov["caps_hit"] = r.capNotes
	}
	kh := map[string]int64{}
	for k, v := range r.knownHit {
		kh[k] = v
	}
	cov["known_findings_hit"] = kh

	ev := map[string]interface{}{
		"property_id": r.Property,
		"tier":        r.Tier,
		"seed":        r.Seed,
		"level":       r.Level,
		"coverage":    cov,
		"assumptions": r.assume,
		"wall_s":      time.Since(r.start).Seconds(),
		"violations":  len(r.violations),
	}
	data, _ := json.MarshalIndent(ev, "", " ")
	_ = os.WriteFile(filepath.Join(Root, "evidence", r.Property+".json"), data, 0o644)

	var ks []string
	for k := range r.knownHit {
		ks = append(ks, k)
	}
	sort.Strings(ks)
	for _, k := range ks {
		what := k
		for _, e := range r.known {
			if e.Signature == k {
				what = e.What + " [" + k + "]"
			}
		}
		fmt.Printf("KNOWN-FINDING: property=%s %s (seen %d times)\n", r.Property, what, r.knownHit[k])
	}
	for _, v := range r.violations {
		fmt.Printf("VIOLATION property=%s replay=%s\n", r.Property, v.Path)
		fmt.Printf("  signature: %s\n  %s\n", v.Signature, v.Message)
	}
	summary, _ := json.Marshal(map[string]interface{}{"counters": r.counters, "outcomes": r.outcomes, "exhaustive": r.Exhaustive, "caps": r.capNotes})
	fmt.Printf("%s %s: violations=%d known_hits=%d wall=%.1fs %s\n", r.Property, r.Tier, len(r.violations), len(r.knownHit), time.Since(r.start).Seconds(), summary)
	if len(r.violations) > 0 {
		return 1
	}
	return 0
}
