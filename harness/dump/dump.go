// Package dump produces a canonical, complete image of a bolt database: every bucket,
// key and value. It is the state representation of the explicit-state explorer.
package dump

import (
	"bytes"
	"crypto/sha256"
	"encoding/hex"
	"fmt"
	"sort"
	"strconv"
	"strings"

	"go.etcd.io/bbolt"
)

// Tree is one bucket: sub-buckets and key/value pairs.
type Tree struct {
	Buckets map[string]*Tree
	Values  map[string][]byte
}

func NewTree() *Tree {
	return &Tree{Buckets: map[string]*Tree{}, Values: map[string][]byte{}}
}

// MaskKeys are key names whose values are replaced by a placeholder (wall-clock fields).
var MaskKeys = map[string]bool{"createdAt": true, "updatedAt": true}

type bucketLike interface {
	Cursor() *bbolt.Cursor
	Bucket(key []byte) *bbolt.Bucket
}

// Tx dumps the whole database visible to tx.
func Tx(tx *bbolt.Tx) *Tree {
	return fromBucket(tx)
}

func fromBucket(b bucketLike) *Tree {
	t := NewTree()
	c := b.Cursor()
	for k, v := c.First(); k != nil; k, v = c.Next() {
		if child := b.Bucket(k); child != nil {
			t.Buckets[string(k)] = fromBucket(child)
			continue
		}
		if MaskKeys[string(k)] && len(v) > 1 {
			t.Values[string(k)] = []byte{v[0], 'T'}
			continue
		}
		t.Values[string(k)] = append([]byte{}, v...)
	}
	return t
}

// DB dumps a database through a read transaction.
func DB(db *bbolt.DB) *Tree {
	var t *Tree
	_ = db.View(func(tx *bbolt.Tx) error {
		t = Tx(tx)
		return nil
	})
	return t
}

func q(s string) string { return strconv.Quote(s) }

func (t *Tree) lines(prefix string, out *[]string) {
	keys := make([]string, 0, len(t.Values))
	for k := range t.Values {
		keys = append(keys, k)
	}
	sort.Strings(keys)
	for _, k := range keys {
		*out = append(*out, prefix+"/"+q(k)+" = "+hex.EncodeToString(t.Values[k]))
	}
	bks := make([]string, 0, len(t.Buckets))
	for k := range t.Buckets {
		bks = append(bks, k)
	}
	sort.Strings(bks)
	for _, k := range bks {
		*out = append(*out, prefix+"/"+q(k)+"/")
		t.Buckets[k].lines(prefix+"/"+q(k), out)
	}
}

// Lines renders the tree as sorted text lines (one per key and per bucket).
func (t *Tree) Lines() []string {
	var out []string
	t.lines("", &out)
	return out
}

func (t *Tree) String() string { return strings.Join(t.Lines(), "\n") }

// Hash is the canonical state key.
func (t *Tree) Hash() string {
	h := sha256.New()
	for _, l := range t.Lines() {
		h.Write([]byte(l))
		h.Write([]byte{'\n'})
	}
	return hex.EncodeToString(h.Sum(nil)[:16])
}

func (t *Tree) Equal(o *Tree) bool {
	if len(t.Values) != len(o.Values) || len(t.Buckets) != len(o.Buckets) {
		return false
	}
	for k, v := range t.Values {
		ov, ok := o.Values[k]
		if !ok || !bytes.Equal(v, ov) {
			return false
		}
	}
	for k, b := range t.Buckets {
		ob, ok := o.Buckets[k]
		if !ok || !b.Equal(ob) {
			return false
		}
	}
	return true
}

// Get walks a bucket path; nil if absent.
func (t *Tree) Get(path ...string) *Tree {
	cur := t
	for _, p := range path {
		if cur == nil {
			return nil
		}
		cur = cur.Buckets[p]
	}
	return cur
}

// Ensure walks/creates a bucket path.
func (t *Tree) Ensure(path ...string) *Tree {
	cur := t
	for _, p := range path {
		next := cur.Buckets[p]
		if next == nil {
			next = NewTree()
			cur.Buckets[p] = next
		}
		cur = next
	}
	return cur
}

func (t *Tree) Clone() *Tree {
	n := NewTree()
	for k, v := range t.Values {
		n.Values[k] = append([]byte{}, v...)
	}
	for k, b := range t.Buckets {
		n.Buckets[k] = b.Clone()
	}
	return n
}

func (t *Tree) Empty() bool { return len(t.Values) == 0 && len(t.Buckets) == 0 }

// PruneEmpty removes empty buckets below this node for which keep(path) is false.
// It returns a new tree. keep receives the bucket path (names) of the empty bucket.
func (t *Tree) PruneEmpty(keep func(path []string) bool) *Tree {
	return t.prune(nil, keep)
}

func (t *Tree) prune(path []string, keep func(path []string) bool) *Tree {
	n := NewTree()
	for k, v := range t.Values {
		n.Values[k] = v
	}
	for k, b := range t.Buckets {
		p := append(append([]string{}, path...), k)
		pb := b.prune(p, keep)
		if pb.Empty() && !keep(p) {
			continue
		}
		n.Buckets[k] = pb
	}
	return n
}

// Diff returns a short human-readable difference (for violation messages).
func Diff(a, b *Tree) string {
	al, bl := a.Lines(), b.Lines()
	am := map[string]bool{}
	for _, l := range al {
		am[l] = true
	}
	bm := map[string]bool{}
	for _, l := range bl {
		bm[l] = true
	}
	var sb strings.Builder
	n := 0
	for _, l := range al {
		if !bm[l] {
			fmt.Fprintf(&sb, "- %s\n", l)
			n++
			if n > 20 {
				sb.WriteString("...\n")
				return sb.String()
			}
		}
	}
	for _, l := range bl {
		if !am[l] {
			fmt.Fprintf(&sb, "+ %s\n", l)
			n++
			if n > 40 {
				sb.WriteString("...\n")
				return sb.String()
			}
		}
	}
	return sb.String()
}

// ContainsBytes reports every place (bucket name, key, value) where needle occurs as a substring.
func (t *Tree) ContainsBytes(needle []byte) []string {
	var out []string
	t.contains("", needle, &out)
	return out
}

func (t *Tree) contains(prefix string, needle []byte, out *[]string) {
	for k, v := range t.Values {
		if bytes.Contains([]byte(k), needle) {
			*out = append(*out, "key "+prefix+"/"+q(k))
		}
		if bytes.Contains(v, needle) {
			*out = append(*out, "value of "+prefix+"/"+q(k))
		}
	}
	for k, b := range t.Buckets {
		if bytes.Contains([]byte(k), needle) {
			*out = append(*out, "bucket "+prefix+"/"+q(k))
		}
		b.contains(prefix+"/"+q(k), needle, out)
	}
	sort.Strings(*out)
}
