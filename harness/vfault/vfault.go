// Package vfault provides storage-write fault points. The overlay build inserts a call to Hit at
// the top of bbolt's Bucket.Put/Delete/CreateBucket/CreateBucketIfNotExists/DeleteBucket. A plan is
// attached to one transaction (pointer identity), so parallel workers do not interfere.
package vfault

import (
	"errors"
	"sync"
)

var ErrInjected = errors.New("verif: injected storage write failure")

type Plan struct {
	FailAt int // 1-based index of the write that fails (0 = none, count only)
	Writes int // writes seen so far
	Fired  bool
	Op     string
}

var (
	mu    sync.Mutex
	plans = map[any]*Plan{}
)

// Attach registers a plan for tx; Detach removes it.
func Attach(tx any, p *Plan) {
	mu.Lock()
	plans[tx] = p
	mu.Unlock()
}

func Detach(tx any) {
	mu.Lock()
	delete(plans, tx)
	mu.Unlock()
}

// Hit is called by the instrumented bbolt write path.
func Hit(tx any, op string) error {
	mu.Lock()
	defer mu.Unlock()
	if len(plans) == 0 {
		return nil
	}
	p := plans[tx]
	if p == nil {
		return nil
	}
	p.Writes++
	if p.FailAt > 0 && p.Writes == p.FailAt {
		p.Fired = true
		p.Op = op
		return ErrInjected
	}
	return nil
}
