#!/usr/bin/env python3
"""Generates /verif/MANIFEST.json from the table below (keeps it schema-valid at all times)."""
import json, os

ROOT = os.path.dirname(os.path.dirname(os.path.abspath(__file__)))

E1 = "E1 explicit-state BFS over real bolt stores (harness/explore)"
E2 = "E2 bounded-exhaustive input/program enumeration vs Go reference model (harness/enum, harness/refmodel)"
E3 = "E3 cooperative scheduler + preemption-bounded DFS (harness/vsched, harness/vsync)"

# id -> (level, engine, technique, text, note, design_ref)
CHECKS = {
    "C17": ("model_checking", E1 + " + " + E3,
            "explicit-state enumeration (state x continuation) of snapshot/continue/restore histories on the real DbImpl + exhaustive 24-cell timeline table + preemption-bounded schedule exploration (with global-state-key pruning) of restore || reader || writer || Snapshot() / RootBucket user / SnapshotInTx user / second restore",
            "Sequential: for every reachable state A of the index scenario (depth 1 quick / 2 thorough) and every continuation transaction: Snapshot, continuation, four snapshot streams that break off (after 0, 1, half, all but one byte: a restore that returns normally must have produced the snapshot's state, one that fails must leave the old or the new database in full), then the restore itself through RestoreSnapshot or RestoreFromReader with two chunked readers; the full image equals A apart from the two markers, GetSnapshotId equals the returned id, each restore listener ran once, the first GetTimelineId issues a fresh id exactly once, the restored database answers reads and accepts every operation exactly like A (reference model), StreamToWriter yields an identical copy, and after every top-level call the reload lock is free again (a leaked lock is reported instead of blocking the restore); a subset of cases continues with a second snapshot and two more restores on the same handle (older snapshot, then newer one), each with fresh id, listeners and timeline bookkeeping. Timeline bookkeeping: all 3 modes x marker x stored id x id-function outcome. Schedules: restore || reader || writer with <= 2 (thorough: 3) preemptions, and four further variants with one preemption less (+ Snapshot(), + View{RootBucket}, + View{SnapshotInTx} whose snapshot must hold exactly what that transaction saw when it began, and two overlapping restores); every transaction sees the old or the new database in full, the final image is a restored one (+writer), no deadlock, no panic, listeners once per restore.",
            "Scheduling points: DbImpl.reloadLock, bbolt's rwlock/metalock/mmaplock (shimmed through the overlay), tracked spawns, harness yields; between them bbolt calls are atomic. vsync.RWMutex reproduces Go's writer preference; one restore (two in one variant), one reader, one writer per schedule; a thread that blocks in code the scheduler does not control is detached (no hang) and the execution is flagged; every 25th schedule is replayed from its choice sequence and must reproduce itself.",
            "DESIGN.md §4 C17"),
    "C18": ("model_checking", E3,
            "preemption-bounded exhaustive schedule exploration (cooperative scheduler over the real DbImpl/bbolt, state-key pruning) with serial-state oracle; helper pairs under every schedule and pool answer; separate free-running -race pass over all unordered pairs of bodies",
            "ALL schedules with <= 2 (thorough: 3) preemptions of one writer committing two multi-operation transactions (entity, unique index, set index, link buckets) and 1 (thorough: 2) reader(s) that read a marker, two index-backed queries (with in-scan yields through an ExternalSymbol), the unique index, the set index and links inside one View: every reader tuple equals the serial tuple of exactly one committed state and the final image is the serial result. Every unordered pair of package-level helpers (Parse valid/invalid/type-error with every pooled-instance answer, GetSymbol incl. two different elements of one map symbol, IsPublicSymbol/ValidateSymbolsArePublic with a never-seen map element per call, GetPublicSymbols, three error classifiers) returns its sequential result under every explored schedule. Two readers with different queries over elements of two map symbols registered below one shared path slice (parse, yield, scan) get their serial answers under every schedule. Data races: every unordered pair of helper, reader and writer bodies runs free under the race detector (20 repetitions x 3 goroutines x 5 calls) and every body whose answer no writer changes must also return its sequential result there.",
            "The cooperative scheduler cannot see unsynchronised accesses; that clause rests on the race detector over the enumerated body pairs (a detector, not an enumeration of memory orderings). Scheduling points as in C17.",
            "DESIGN.md §4 C18"),
    "C07": ("fault_enumeration", E1,
            "enumeration of (base state x transaction body x failure kind x failure position x route) on the real Db.Update/Batch path with storage-write fault points in bbolt and joined goroutines",
            "From every base state of a short kitchen-sink exploration (quick: depth <= 1 for all bodies, depth 2 for the bodies made of one delete), every single operation and all pairs (thorough: sampled triples) over a core alphabet are run with every failure kind at every position: caller error before each operation and after the last, operation rejected by the reference model (duplicate, missing target, restrict, unusable key), constraint veto for each of 6 stores x 3 change types, a child-store strategy refusing an update or delete that arrives through the parent (each child store), a failing pre-commit action alone / before / after / between succeeding ones / registering further actions / registered on the context before the call, and storage write k of N failing for EVERY k (fault points inserted into bbolt's write methods by the overlay); through Db.Update, nested Db.Update and Db.Batch; operations refused by input validation (blank id, wrong entity type, nil entity) and set elements too large to be stored (through parent, plain child and extended child) are part of the alphabet; vetoes, strategy refusals, caller errors and failing pre-commit actions are raised with an untyped error and with the library's own not-found error type. Every exported setter of PersistContext and TypedBucket (37 x 3 field-checker situations x field present or not) is called on a bucket that already carries an error: the error must still be recorded afterwards. The failing store call and the transaction must return an error, the database must be byte-identical, and no listener, post-commit hook, commit action or tx-complete listener may run (all library goroutines are joined, no sleeps).",
            "Storage faults are injected at bbolt's Put/Delete/CreateBucket(IfNotExists)/DeleteBucket entry (pages/fsync are not modelled); Batch is sampled (10 ms per call); single caller.",
            "DESIGN.md §4 C07"),
    "C08": ("model_checking", E1,
            "base states from explicit-state BFS x transaction programs routed through parent / plain child / extended child store; multiset of delivered events vs reference event list; goroutines joined through the tracked-spawn overlay; preemption-bounded schedule exploration of a tx-complete listener registered between two transactions",
            "Ten registration styles (typed, function, untyped, id-only, typed and untyped constraint; sync and async) x three change types on five stores record (store, style, type, id, observed state). For every base state and every 1-2 (thorough: 3) operation transaction - committed (also with two succeeding pre-commit actions), rolled back by a caller error, rejected by the model or by a failing pre-commit action (alone or followed by a succeeding one), via Update, Batch and a Batch whose first run fails transiently and whose solo re-run commits - the recorded multiset must equal the reference list derived from the model (one event per committed change with final/last state, one parent event per child change, none for undone work); commit actions and tx-complete listeners exactly once per committed transaction; when an id-only listener runs, a fresh read transaction must already show the state the transaction leaves behind ('after the commit'). Every registration passes its change types through one shared spread slice with spare capacity. Schedules (bound 2, thorough 3): transaction A yields inside its function, B waits for the writer lock, R registers a tx-complete listener - every transaction whose function began after the registration returned is reported exactly once, none twice.",
            "Events on the extended child store for entities without extended data are not specified and ignored; two concurrent Batch callers are outside the property.",
            "DESIGN.md §4 C08"),
    "C09": ("model_checking", E1,
            "explicit-state BFS for soundness on every reachable healthy state + exhaustive enumeration of corruption subsets on three base states against an independent reference differ/repairer",
            "On every reachable state of the kitchen-sink exploration (depth 3/4) - committed, and uncommitted inside the transaction that just executed the operation - check-only and fix runs must report nothing and change nothing. On three base states (person ids one a prefix of the other) ALL subsets of size <= 2 (thorough: 3) of 30 raw-bucket corruption atoms (whole fk / link buckets missing; unique: missing/dangling/wrong-target/stale; set: missing/extra/dangling id, empty key, missing key, stray key; fk: missing/extra/dangling back-reference, dangling reference nullable and not, null in non-nullable; link: one-sided either side, dangling; genuine unique conflict) are applied in an earlier transaction and in the same transaction as the fix: check-only reports every item of the reference diff and leaves the image unchanged, the fix run reaches the reference-repaired image, the re-check reports only unfixable conflicts and changes nothing. Foreign-key CONSTRAINTS (AddFkConstraint, 4 wirings) have their own pass: all subsets of {dangling reference, second dangling reference, null in the field} x earlier/same transaction.",
            "Reports are matched by the ids/values they mention; extra reports on corrupted databases are not judged; empty link buckets created by reading links and zero-length vs typed-nil null values are normalised.",
            "DESIGN.md §4 C09"),
    "C13": ("exploration", E2,
            "bounded-exhaustive enumeration of values, value trees, field-checker subsets and compound-key lists; write in one committed transaction, read back in a later one",
            "Every typed setter/getter pair over boundary values (integer extremes, signed zero, infinities, NaN, denormals, NUL-containing and 64 KiB strings, times in several zones incl. year 1/9999), all string lists up to 3 over {\"\",a,b,dup}, every such list written over every list of length <= 2 (committed before or earlier in the same transaction, both list setters), ALL value trees up to depth 2 (thorough: 3) over 8 leaf kinds with up to 2 children (nulls, empty maps/lists inside containers), all 16 field-checker subsets (untouched fields byte-identical), all 32 selections under a MappedFieldChecker, and all compound-key lists up to 3 over 8 element shapes with an exhaustive collision table. Every PersistContext setter under all 1024 selections of a 10-field checker (and none), required-but-empty strings refused without a write. The base values of an extended entity (created-at, updated-at, tags, system flag) under Migrate: 4x4 instants x 4 tag maps x flag, then three updates.",
            "The reserved list-size key and empty map keys (rejected loudly by bbolt) are outside the alphabet.",
            "DESIGN.md §4 C13"),
    "C14": ("exploration", E2,
            "exhaustive enumeration of element sets x cursor kinds x Next/Seek scripts against a sorted-slice reference cursor",
            "For every subset of {\"\",a,a\\x00,ab,b} (incl. the empty set) every cursor kind obtainable through the exported API (49 kinds: forward/reverse raw and typed bucket cursors, index value/key cursors, related-entity, link, ref-counted link, set-symbol runtime incl. one runtime symbol re-opened across rows, stacked, IterateIds/IterateValidIds, IteratorMatchingAllOf/AnyOf with 0..3 values present/absent in every position, filtered, tree, union, empty) is driven by ALL scripts of up to 3 (thorough: 4) steps over {Next, Seek(v) for 8 targets}; validity and Current() bytes are compared with the reference after every step and the cursor is then drained.",
            "Next() on an exhausted cursor is outside the alphabet; the set-symbol runtime cursor is positioned through SeekToString.",
            "DESIGN.md §4 C14"),
    "C10": ("exploration", E2,
            "bounded-exhaustive enumeration of token sequences, short byte strings, operand-type mixes and token mutations; oracle = no panic + independent grammar recogniser + evaluation on three datasets",
            "ALL token sequences up to length 3 (thorough: 4) over 44 lexemes (one or two per token class, identifiers of every symbol kind, three unrecognised characters) with and without blanks, all byte strings up to length 3 over 44 bytes, every symbol-kind x operator x literal-type mix (incl. literals that lex but cannot be converted, alone and in every array/between position), and single-token mutations of valid sentences are parsed; nothing may panic, everything accepted must be a sentence of ZitiQl.g4 according to an independently written recogniser (so unrecognised characters are never silently dropped) and must evaluate (scan, cursor iteration, and index-cursor providers over 0/1/2 present and absent values) on an empty store, an all-null entity and a populated store without panicking; every input additionally goes through an objectz.ObjectStore (a second symbol table, same three datasets) with the same no-panic and accepted-implies-in-grammar oracle; parse sequences over pooled lexer/parser instances must not leak state.",
            "The recogniser (maximal-munch lexer + memoised backtracking matcher of the parser rules) is trusted as the grammar oracle; only 'accepted implies in grammar' is demanded. Debug-parse diagnostic counts are not part of the property.",
            "DESIGN.md §4 C10"),
    "C11": ("exploration", E2,
            "exhaustive enumeration of all strings up to length 4/5 over an 11-character alphabet and all lexer-valid literal bodies up to length 5/6; oracle = the string itself / single-pass unescaper",
            "For ALL strings over {a,n,t,backslash,quote,space,LF,TAB,CR,FF,e-acute} up to the bound, the canonical literal must denote exactly the string in ParseZqlString and as operand of =, !=, in, not in, contains, not contains (evaluated against the string and near misses); all lexer-valid escape spellings up to the bound are compared with a single-pass unescaper, which also establishes that distinct strings never share a denotation.",
            "String length <= 4 (quick) / 5 (thorough).",
            "DESIGN.md §4 C11"),
    "C12": ("exploration", E2,
            "exhaustive enumeration of boolean skeletons (all and/or tree shapes up to 4/5 atoms, up to 2 negations) x three parenthesisation styles x all 2^n assignments; plus keyword-case/whitespace re-spellings on a real store",
            "Every and/or/not skeleton up to the bound is printed with only the parentheses the documented precedence requires, fully parenthesised and with redundant parentheses; the parsed query's truth table over all assignments must equal the skeleton's. Keyword and word-operator case variants, every blank replaced by TAB/LF/CR (one at a time and all at once) or doubled where the grammar has WS+, and redundant outer parentheses must not change results (including the negated word operators keeping their negation).",
            "Bare prefix `not` (without parentheses) is not compared: the property does not fix its binding strength.",
            "DESIGN.md §4 C12"),
    "C20": ("exploration", E2,
            "enumeration of typed queries covering every typed AST node kind (measured by a visitor) x ALL public/non-public assignments of the symbols each query mentions",
            "Every query of the C01/C02 generators plus sub-queries carrying their own sort clauses (each typed node kind produced at least once - the run fails as vacuous otherwise) is validated under every public/non-public assignment of its symbols on freshly wired stores; accept iff all mentioned symbols are public (map elements one to three levels below the map follow the map, in predicates, null tests, in/contains, sort fields and sub-queries), and a rejection must name a non-public symbol of the query.",
            "Sub-queries only over the self-referential set (so 'public for the store' is unambiguous); id and fk symbols are always public (no API to register them otherwise).",
            "DESIGN.md §4 C20"),
    "C02": ("exploration", E2,
            "bounded-exhaustive enumeration of sort specifications x skip/limit x predicates x all assignments of the sort fields; differential against a reference sorter/pager over four query routes",
            "All sort specifications of 0..2 fields (thorough: every pair, 3 and 5 fields), every direction spelling, 56 skip/limit combinations (absent, none, negative, 0, beyond the end) and four predicate shapes are run on ALL assignments of the sort fields over {null,v1,v2} on 4 entities; ids, order and total count from QueryIds, QueryIdsC on a re-used query, QueryWithCursorC over an index cursor and IterateIds must equal the reference, inside the writing transaction and (quick: families of at most one sort field) again on the committed pages. Child stores: on every state of a short parent/child exploration 36 skip/limit combinations x 4 sort specifications through the parent, the plain child and the extended child store (a parent-only row must not consume a child store's skip/limit). AdoptSortFields: a used query that is given another query's sort clause, used again, given its own clause back and used a third time follows the clause it has at each use. Boundary-value pass: single-field sorts over extreme integers, denormal/huge floats, instants outside the int64-nanosecond range and 1 ns apart, prefix/case/multi-byte strings - all assignments on 3 entities.",
            "4 entities; domains of 3 values (2 when two or more sort fields); dotted sort fields are not supported by the engine and not generated.",
            "DESIGN.md §4 C02"),
    "C19": ("exploration", E2,
            "bounded-exhaustive differential: object store vs bolt store vs reference on every scalar filter atom/composition and every sort/skip/limit query over all small datasets",
            "Every scalar-symbol filter of C01 and every sort/paging query of C02 is run on objectz.ObjectStore and on a bolt store holding the same values for ALL assignments of the mentioned fields; ids, order and total count must agree with each other and with the reference, through QueryEntities and through QueryEntitiesC on a query parsed once and used twice; plus the boundary-value pass of C01/C02 (comparisons against and sorts over extreme values of every type).",
            "Fields of the five scalar types or null; 2 entities for filters, 4 for paging.",
            "DESIGN.md §4 C19"),
    "C01": ("exploration", E2,
            "bounded-exhaustive enumeration of filter atoms and compositions x all field assignments over tiny domains; differential against an independent reference evaluator on real bolt stores",
            "Every (symbol kind x operator x literal) atom the grammar and typer admit - scalars of all five types, any-typed map element, fk, dotted one/two-hop symbols, anyOf/allOf/count/isEmpty over direct (seekable), dotted (scanned) and link sets, sub-queries - and all 2-atom (thorough: 3-atom) compositions are evaluated on ALL assignments of the mentioned fields, inside the transaction that wrote the dataset and again in a read transaction after commit; QueryIds, QueryIdsC and IterateIds must each return exactly the ids the reference evaluator selects. Boundary-value pass: every comparison operator against every boundary literal (extreme integers, denormal/huge floats, instants outside the int64-nanosecond range and 1 ns apart, prefix/case/multi-byte strings) on all assignments of 3 entities.",
            "Domains: 3-7 values per field incl. null/empty, 2 entities (3 for single-field families in thorough). Rows whose answer the documentation does not settle (any-typed value of a type the literal cannot read, bool/time-to-string, count over null elements) are skipped and counted. Mixed and/or always parenthesised (C12).",
            "DESIGN.md §4 C01"),
    "C03": ("model_checking", E1,
            "explicit-state BFS to closure over real stores; every state x every transaction program vs reference model (complete database image + API reads)",
            "All reachable canonical database images of the unique/set index scenario are enumerated to closure; on every transition the outcome class and the complete bucket image are compared with a reference model, so index buckets are checked byte-for-byte against entity-derived state; one and two operations per transaction; a restricted view with three entities alive at once; the same indexes used through a plain and an extended child store; reads through ReadIndex, SetReadIndex (Read, ReadKeys, OpenValueCursor) and FindMatching / FindMatchingAnyOf over 0..2 present and absent values.",
            "Tiny universes (2-3 ids, 3 names, 3 aliases, 4 role sets); bbolt atomicity trusted; equal masked dumps are merged (same futures).",
            "DESIGN.md §4 C03"),
    "C04": ("model_checking", E1,
            "explicit-state BFS to closure per foreign-key wiring (7 wirings, 3 self-referential ones, 2 whose target is a plain / extended child store of the referring store), plain and hostile id strings; reference model comparison of complete image, back-reference reads and error classes",
            "Every reachable state of each wiring is enumerated to closure; restrict/cascade outcome, surviving entities and back-reference buckets are compared with a reference model on every transition, repeated with ids containing quotes, backslashes, keywords and control characters, and with three referrers where the target is deleted in the same transaction as an earlier change of the referencing store; every refused delete is additionally run through Db.Batch (which re-runs a failed function on its own): same refusal, unchanged database.",
            "2 targets x 2 referrers (3 self-referential entities); cascade over a reference cycle is probed in a child process first (a stack overflow would kill the checker); since fix 0176587 the probe survives and the cycle deletes are executed and compared in-process.",
            "DESIGN.md §4 C04"),
    "C05": ("model_checking", E1,
            "explicit-state BFS to closure over link / ref-counted link operations from both sides + exhaustive (current set x requested list) enumeration for SetLinks",
            "All reachable link states (symmetric and ref-counted) are enumerated to closure with every operation issued from either side (collection API, and the entity-level route Update -> PersistContext.SetLinkedIds with and without a field checker), one and two operations per transaction, 2x2 and 2x3 entities, plus a link collection owned by a child store; reads through the collection (links, cursors, link counts from either side) and through the store's related-entity API; both directions and both counts are compared byte-for-byte with the model; SetLinks is checked for every current set over 4 ids and every request list up to length 3/4 including duplicates, unsorted input and a missing id.",
            "2x2 (2x3) entities, counts bounded by 2/3 (Increment above the bound is skipped on both sides), negative counts outside the property's domain.",
            "DESIGN.md §4 C05"),
    "C06": ("model_checking", E1,
            "explicit-state BFS (depth-bounded) over the kitchen-sink schema; every reachable state x every delete; ValidateDeleted + byte scan + complete image vs reference model",
            "Histories up to the depth bound over a schema combining every index/constraint/link type and both child-store kinds are enumerated (plus a schema whose child stores own indexes and a link collection, with the extended child registered before and after the plain one); after every delete the repository's own oracle, a byte-level search for the id and the full reference image (which cannot contain the id) are checked; re-creation is part of the alphabet so 'as if never existed' is the model comparison on successor states; a second pass runs <any operation>; <delete> inside one transaction from every state up to depth 3/4.",
            "Depth bound 5 (quick) / transition and state caps (thorough) - not a closure; reported in evidence as exhaustive:false with the depth completed.",
            "DESIGN.md §4 C06"),
    "C15": ("model_checking", E1,
            "explicit-state BFS to closure over operations routed through parent, plain child and extended child store; reads through all three stores vs reference model",
            "All reachable states of a parent store with a plain and an extended child store are enumerated to closure; on every transition the complete image, FindById/LoadById/QueryIds (both scanners)/IterateIds/IterateValidIds through each store and the parent's index reads are compared with the model; all two-operation transactions from every state up to depth 2/3.",
            "2 entity ids; promoting an existing parent through child Create and deleting a plain parent through the plain child store are unspecified and excluded.",
            "DESIGN.md §4 C15"),
    "C16": ("model_checking", E1,
            "explicit-state BFS to closure over {create,update,patch,delete} x {system,ordinary context} x flag, 1-2 operations per transaction",
            "All reachable states and all one- and two-operation transactions mixing system and ordinary contexts are enumerated (updates as full update, field-restricted patch, and with the entity's Migrate mark set; through the parent, a plain child and an extended child store); the system / ordinary context is also handed to Db.Update / Db.Batch by the caller; allowed/refused, unchanged-after-refusal, immutability of the flag and read-back are compared with the model.",
            "2 ids, 2 names (a unique index supplies a second rejection cause).",
            "DESIGN.md §4 C16"),
}

NOT_BUILT = {}

ALL = ["C%02d" % i for i in range(1, 21)]


def main():
    checks = []
    for pid in ALL:
        if pid not in CHECKS:
            continue
        level, engine, technique, text, note, ref = CHECKS[pid]
        checks.append({
            "property_id": pid,
            "quick_cmd": "./run.sh %s quick" % pid,
            "thorough_cmd": "./run.sh %s thorough" % pid,
            "evidence_file": "/verif/evidence/%s.json" % pid,
            "replay_cmd_template": "cat {path}",
            "engine": engine,
            "level_claimed": {"category": level, "text": text, "design_ref": ref},
            "level_note": note,
            "technique": technique,
        })
    na = []
    for pid in ALL:
        if pid not in CHECKS:
            na.append({"property_id": pid, "reason": NOT_BUILT.get(pid, "check not built yet in this session (planned, see DESIGN.md §4); not claimed until it runs green")})
    m = {
        "version": 1,
        "setup_cmd": "./setup.sh",
        "hooks": {
            "guard": "verif",
            "enable": "no source hooks in /repo: instrumentation is a go build -overlay generated from the current tree by harness/tools/mkoverlay (sync->vsync shim in boltz/db.go and zitiql/util.go, go statements -> tracked spawn; in the bbolt module: write fault points in bucket.go, rwlock/metalock/mmaplock of DB -> vsync in db.go)",
            "baseline_off_cmd": "cd /repo && go test -vet=off -count=1 ./...",
            "source_commits": [],
            "add_only": True,
        },
        "engines": [
            {"name": "E1", "path": "harness/explore", "serves_properties": ["C03", "C04", "C05", "C06", "C07", "C08", "C09", "C15", "C16", "C17"], "kind_free_text": E1},
            {"name": "E2", "path": "harness/enum", "serves_properties": ["C01", "C02", "C10", "C11", "C12", "C13", "C14", "C19", "C20"], "kind_free_text": E2},
            {"name": "E3", "path": "harness/vsched", "serves_properties": ["C17", "C18"], "kind_free_text": E3},
        ],
        "checks": checks,
        "not_applicable": na,
        "notes": "Every check rebuilds the harness against /repo's working tree (run.sh). Known findings and repaired defects: known_findings.json (the known list is empty; 27 fix: commits). Seeded changes: seeded/ (196, all detected at the quick tier, two of them only by the check of a neighbouring property); behaviour-preserving refactorings: refactors/ (8, no alarm); self-test: tools/selftest.py -> selftest/results.json.",
    }
    with open(os.path.join(ROOT, "MANIFEST.json"), "w") as f:
        json.dump(m, f, indent=1)
        f.write("\n")


if __name__ == "__main__":
    main()
