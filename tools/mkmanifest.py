#!/usr/bin/env python3
"""Generates /verif/MANIFEST.json from the table below (keeps it schema-valid at all times)."""
import json, os

ROOT = os.path.dirname(os.path.dirname(os.path.abspath(__file__)))

E1 = "E1 explicit-state BFS over real bolt stores (harness/explore)"
E2 = "E2 bounded-exhaustive input/program enumeration vs Go reference model (harness/enum, harness/refmodel)"
E3 = "E3 cooperative scheduler + preemption-bounded DFS (harness/vsched, harness/vsync)"

# id -> (level, engine, technique, text, note, design_ref)
CHECKS = {
    "C03": ("model_checking", E1,
            "explicit-state BFS to closure over real stores; every state x every transaction program vs reference model (complete database image + API reads)",
            "All reachable canonical database images of the unique/set index scenario are enumerated to closure; on every transition the outcome class and the complete bucket image are compared with a reference model, so index buckets are checked byte-for-byte against entity-derived state.",
            "Tiny universes (2-3 ids, 3 names, 3 aliases, 4 role sets); bbolt atomicity trusted; equal masked dumps are merged (same futures).",
            "DESIGN.md §4 C03"),
}

NOT_BUILT = {}

ALL = ["C%02d" % i for i in range(1, 21)]


def main():
    checks = []
    for pid in ALL:
        if pid not in CHECKS:
            continue
        level, engine, technique, text, note, ref = CHECKS[pid]
        checks.append({
            "property_id": pid,
            "quick_cmd": "./run.sh %s quick" % pid,
            "thorough_cmd": "./run.sh %s thorough" % pid,
            "evidence_file": "/verif/evidence/%s.json" % pid,
            "replay_cmd_template": "cat {path}",
            "engine": engine,
            "level_claimed": {"category": level, "text": text, "design_ref": ref},
            "level_note": note,
            "technique": technique,
        })
    na = []
    for pid in ALL:
        if pid not in CHECKS:
            na.append({"property_id": pid, "reason": NOT_BUILT.get(pid, "check not built yet in this session (planned, see DESIGN.md §4); not claimed until it runs green")})
    m = {
        "version": 1,
        "setup_cmd": "./setup.sh",
        "hooks": {
            "guard": "verif",
            "enable": "no source hooks in /repo: instrumentation is a go build -overlay generated from the current tree by harness/tools/mkoverlay (sync->vsync shim in boltz/db.go and zitiql/util.go, go statements -> tracked spawn)",
            "baseline_off_cmd": "cd /repo && go test -vet=off -count=1 ./...",
            "source_commits": [],
            "add_only": True,
        },
        "engines": [
            {"name": "E1", "path": "harness/explore", "serves_properties": ["C03", "C04", "C05", "C06", "C07", "C08", "C09", "C15", "C16", "C17"], "kind_free_text": E1},
            {"name": "E2", "path": "harness/enum", "serves_properties": ["C01", "C02", "C10", "C11", "C12", "C13", "C14", "C19", "C20"], "kind_free_text": E2},
            {"name": "E3", "path": "harness/vsched", "serves_properties": ["C17", "C18"], "kind_free_text": E3},
        ],
        "checks": checks,
        "not_applicable": na,
        "notes": "Every check rebuilds the harness against /repo's working tree (run.sh). Known findings: known_findings.json.",
    }
    with open(os.path.join(ROOT, "MANIFEST.json"), "w") as f:
        json.dump(m, f, indent=1)
        f.write("\n")


if __name__ == "__main__":
    main()
