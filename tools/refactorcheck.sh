#!/bin/bash
# usage: refactorcheck.sh <out-dir-with-patch.diff> <name>
# A behaviour-preserving refactoring written by an independent sub-agent: confirm it builds and passes the
# repository's suite in a fresh scratch worktree, apply it to /repo, run EVERY quick check (none may report a
# violation), revert /repo, store the patch and the results under /verif/refactors/<name>/.
set -u
OUT="$1"; NAME="$2"
export GOFLAGS=-mod=mod GOPROXY=off GOSUMDB=off GOTOOLCHAIN=local
ROOT="$(cd "$(dirname "$0")/.." && pwd)"
WT=/tmp/refverify-$$
PATCH="$OUT/patch.diff"
[ -s "$PATCH" ] || { echo "no patch"; exit 2; }
git -C /repo worktree add --detach "$WT" HEAD -q || exit 2
trap 'git -C /repo worktree remove --force "$WT" 2>/dev/null; rm -rf "$WT"' EXIT
cd "$WT"
git apply --check "$PATCH" || { echo "patch does not apply"; exit 2; }
git apply "$PATCH"
BUILD=0; go build ./... > /tmp/ref-$$-build.log 2>&1 || BUILD=1
go test -vet=off -count=1 ./... > /tmp/ref-$$-suite.log 2>&1; SUITE=$?
LINES=$(git diff --stat | tail -1)
echo "confirm: build=$BUILD suite_exit=$SUITE ($LINES)"
cd "$ROOT"
[ -z "$(git -C /repo status --porcelain)" ] || { echo "/repo not clean"; exit 2; }
git -C /repo apply "$PATCH" || exit 2
RESULTS=""
ALARMS=0
for i in 01 02 03 04 05 06 07 08 09 10 11 12 13 14 15 16 17 18 19 20; do
  ID=C$i
  cp "$ROOT/evidence/$ID.json" /tmp/ref-$$-ev.json 2>/dev/null
  ./run.sh $ID quick > /tmp/ref-$$-check.log 2>&1; RC=$?
  cp /tmp/ref-$$-ev.json "$ROOT/evidence/$ID.json" 2>/dev/null
  SIG="$(grep -m1 'signature:' /tmp/ref-$$-check.log | sed 's/^ *signature: //' | cut -c1-220)"
  [ $RC = 0 ] || { ALARMS=$((ALARMS+1)); echo "ALARM $ID exit=$RC $SIG"; grep -m1 -A1 'signature:' /tmp/ref-$$-check.log | tail -1 | cut -c1-400; }
  RESULTS="$RESULTS{\"check\":\"$ID\",\"exit\":$RC,\"first_signature\":$(python3 -c 'import json,sys; print(json.dumps(sys.argv[1]))' "$SIG")},"
done
git -C /repo checkout -- . ; git -C /repo status --porcelain | head -3
rm -rf "$ROOT/replays"/*
DEST="$ROOT/refactors/$NAME"; mkdir -p "$DEST"
cp "$PATCH" "$DEST/patch.diff"; [ -f "$OUT/notes.md" ] && cp "$OUT/notes.md" "$DEST/notes.md"
python3 - "$DEST" "$NAME" "$BUILD" "$SUITE" "$LINES" "[${RESULTS%,}]" "$ALARMS" <<'PY'
import json,sys,os
dest,name,build,suite,lines,results,alarms=sys.argv[1:8]
json.dump({"name":name,"kind":"behaviour-preserving refactoring by an independent sub-agent","go_build_exit":int(build),"existing_suite_exit":int(suite),"diffstat":lines,"quick_checks":json.loads(results),"checks_reporting_a_violation":int(alarms)},open(os.path.join(dest,'meta.json'),'w'),indent=1)
PY
echo "stored $DEST alarms=$ALARMS"
rm -f /tmp/ref-$$-*
