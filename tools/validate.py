#!/usr/bin/env python3
import json,sys,glob
import jsonschema
ev=json.load(open('/root/.vp/EVIDENCE.schema.json'))
ms=json.load(open('/root/.vp/MANIFEST.schema.json'))
ok=True
for f in sorted(glob.glob('/verif/evidence/*.json')):
    try:
        jsonschema.validate(json.load(open(f)),ev); print('ok',f)
    except Exception as e:
        ok=False; print('BAD',f,str(e)[:300])
try:
    jsonschema.validate(json.load(open('/verif/MANIFEST.json')),ms); print('ok MANIFEST')
except Exception as e:
    ok=False; print('BAD MANIFEST',str(e)[:300])
sys.exit(0 if ok else 1)
