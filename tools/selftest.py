#!/usr/bin/env python3
"""Self-test: apply realistic property-breaking edits through `go build -overlay` (never touching
/repo), confirm the repository's own tests still pass with the edit, and confirm the check fails.

usage: selftest.py [-p C03] [-t quick] [--no-repo-tests] [name-substring]
"""
import json, os, subprocess, sys, tempfile, shutil, argparse, time

ROOT = os.path.dirname(os.path.dirname(os.path.abspath(__file__)))
ENV = dict(os.environ, GOFLAGS="-mod=mod", GOPROXY="off", GOSUMDB="off", GOTOOLCHAIN="local")

# (property, name, file, old, new[, count])  -- old must occur in file; replaced once unless count given
MUTANTS = json.load(open(os.path.join(ROOT, "tools", "mutants.json")))
# every repaired defect is also a self-test: revert the "fix:" commit (in a scratch worktree, applied
# through the overlay) and the check that found it must report it again
for fx in json.load(open(os.path.join(ROOT, "known_findings.json")))["fixed"]:
    MUTANTS.append({"prop": fx["property"], "name": "revert %s: %s" % (fx["commit"], fx["what"][:70]), "revert": fx["commit"]})


def sh(cmd, cwd=None, env=None, timeout=3600):
    p = subprocess.run(cmd, shell=True, cwd=cwd, env=env or ENV, stdout=subprocess.PIPE, stderr=subprocess.STDOUT, text=True, timeout=timeout)
    return p.returncode, p.stdout


def main():
    ap = argparse.ArgumentParser()
    ap.add_argument("-p", "--prop")
    ap.add_argument("-t", "--tier", default="quick")
    ap.add_argument("--no-repo-tests", action="store_true")
    ap.add_argument("filter", nargs="?")
    a = ap.parse_args()
    results = []
    for m in MUTANTS:
        if a.prop and m["prop"] != a.prop:
            continue
        if a.filter and a.filter not in m["name"]:
            continue
        tmp = tempfile.mkdtemp(prefix="verif-selftest-", dir="/dev/shm")
        try:
            replace = {}
            if "revert" in m:
                wt = "/tmp/verif-regress-%d" % os.getpid()
                sh("git -C /repo worktree remove --force %s; rm -rf %s" % (wt, wt))
                rc, out = sh("git -C /repo worktree add --detach %s HEAD -q && git -C %s revert --no-commit %s" % (wt, wt, m["revert"]))
                if rc != 0:
                    sh("git -C /repo worktree remove --force %s; rm -rf %s" % (wt, wt))
                    results.append((m["prop"], m["name"], "SKIPPED revert does not apply on its own (a later fix rewrote the same lines)"))
                    raise StopIteration
                rc, out = sh("git -C %s diff --name-only HEAD" % wt)
                for f in out.split():
                    dst = os.path.join(tmp, f.replace("/", "_"))
                    shutil.copy(os.path.join(wt, f), dst)
                    replace[os.path.join("/repo", f)] = dst
                sh("git -C /repo worktree remove --force %s; rm -rf %s" % (wt, wt))
            for ed in m.get("edits", []):
                src = os.path.join("/repo", ed["file"])
                text = open(src).read()
                if ed["old"] not in text:
                    results.append((m["prop"], m["name"], "EDIT-NOT-APPLICABLE"))
                    raise StopIteration
                text = text.replace(ed["old"], ed["new"], ed.get("count", 1))
                dst = os.path.join(tmp, ed["file"].replace("/", "_"))
                open(dst, "w").write(text)
                replace[src] = dst
            ov = os.path.join(tmp, "overlay.json")
            json.dump({"Replace": replace}, open(ov, "w"))
            repo_ok = "skipped"
            if not a.no_repo_tests:
                rc, out = sh("go test -overlay %s -vet=off -count=1 ./... 2>&1 | tail -15" % ov, cwd="/repo")
                repo_ok = "pass" if ("FAIL" not in out and rc == 0) else "FAIL"
                if repo_ok == "FAIL":
                    print(out)
            mode_overlay = m["prop"] in ("C07", "C08", "C17", "C18")
            binp = os.path.join(tmp, "vcheck")
            if mode_overlay:
                ovdir = os.path.join(tmp, "ov")
                os.makedirs(ovdir)
                rc, bb = sh("go list -m -f '{{.Dir}}' go.etcd.io/bbolt", cwd=os.path.join(ROOT, "harness"))
                rc, out = sh("go run ./tools/mkoverlay -repo /repo -out %s -base %s -bbolt %s" % (ovdir, ov, bb.strip().splitlines()[-1]), cwd=os.path.join(ROOT, "harness"))
                if rc != 0:
                    results.append((m["prop"], m["name"], "MKOVERLAY-FAILED " + out[-300:]))
                    raise StopIteration
                ov = os.path.join(ovdir, "overlay.json")
            rc, out = sh("GODEBUG=goindex=0 go build -overlay %s -o %s ./cmd/vcheck" % (ov, binp), cwd=os.path.join(ROOT, "harness"))
            racebin = None
            if rc == 0 and m["prop"] == "C18":
                # the race pass must see the edit too: plain build + the edit's own overlay
                racebin = os.path.join(tmp, "vcheck-race")
                base_ov = os.path.join(tmp, "overlay.json")
                rc, out = sh("go build -race -overlay %s -o %s ./cmd/vcheck" % (base_ov, racebin), cwd=os.path.join(ROOT, "harness"))
            if rc != 0:
                results.append((m["prop"], m["name"], "BUILD-FAILED " + out[-400:]))
                raise StopIteration
            vroot = os.path.join(tmp, "root")
            os.makedirs(vroot)
            shutil.copy(os.path.join(ROOT, "known_findings.json"), vroot)
            env = dict(ENV, VERIF_ROOT=vroot)
            if racebin:
                env["VERIF_RACE_BIN"] = racebin
            t0 = time.time()
            rc, out = sh("%s -prop %s -tier %s" % (binp, m["prop"], a.tier), cwd=ROOT, env=env)
            caught = rc == 1 and "VIOLATION property=%s" % m["prop"] in out
            first = [l for l in out.splitlines() if l.strip().startswith("signature:")][:1]
            results.append((m["prop"], m["name"], ("CAUGHT" if caught else "MISSED rc=%d" % rc) + " repo-tests=%s %.0fs %s" % (repo_ok, time.time() - t0, first[0].strip()[:160] if first else "")))
        except StopIteration:
            pass
        finally:
            shutil.rmtree(tmp, ignore_errors=True)
        print(*results[-1], flush=True)
    missed = [r for r in results if not (r[2].startswith("CAUGHT") or r[2].startswith("SKIPPED"))]
    if not (a.prop or a.filter):
        os.makedirs(os.path.join(ROOT, "selftest"), exist_ok=True)
        json.dump([{"property": r[0], "edit": r[1], "result": r[2]} for r in results], open(os.path.join(ROOT, "selftest", "results.json"), "w"), indent=1)
    print("selftest: %d mutants, %d caught, %d not" % (len(results), len(results) - len(missed), len(missed)))
    return 1 if missed else 0


if __name__ == "__main__":
    sys.exit(main())
