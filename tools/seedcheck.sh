#!/bin/bash
# usage: seedcheck.sh <seed-out-dir> <property-id> <name> [tier] [extra-check-ids...]
# 1. confirms the seeded change in a fresh scratch worktree: compiles, existing suite passes,
#    demonstration fails with the change and passes without it
# 2. applies it to /repo, runs the property's check (quick tier by default), reverts /repo
# 3. stores patch, demonstration and meta.json under /verif/seeded/<name>/
set -u
OUT="$1"; PROP="$2"; NAME="$3"; TIER="${4:-quick}"; shift; shift; shift; shift 2>/dev/null
EXTRA="$*"
export GOFLAGS=-mod=mod GOPROXY=off GOSUMDB=off GOTOOLCHAIN=local
ROOT="$(cd "$(dirname "$0")/.." && pwd)"
WT=/tmp/seedverify-$$
PATCH="$OUT/patch.diff"
DEMO_REL="$(head -1 "$OUT/demo_path.txt" | tr -d "[:space:]")"
DEMO_FILE="$OUT/$(basename "$DEMO_REL")"
[ -s "$PATCH" ] || { echo "no patch"; exit 2; }
git -C /repo worktree add --detach "$WT" HEAD -q || exit 2
cleanup() { git -C /repo worktree remove --force "$WT" 2>/dev/null; rm -rf "$WT"; }
trap cleanup EXIT
cd "$WT"
git apply --check "$PATCH" || { echo "patch does not apply"; exit 2; }
DEMO_PKG="./$(dirname "$DEMO_REL")"
# without the change: demo passes
cp "$DEMO_FILE" "$WT/$DEMO_REL"
go test -vet=off -count=1 -run 'TestSeedDemo' "$DEMO_PKG" > /tmp/seed-$$-without.log 2>&1; WITHOUT=$?
git apply "$PATCH"
BUILD=0; go build ./... > /tmp/seed-$$-build.log 2>&1 || BUILD=1
go test -vet=off -count=1 -run 'TestSeedDemo' "$DEMO_PKG" > /tmp/seed-$$-with.log 2>&1; WITH=$?
rm -f "$WT/$DEMO_REL"
go test -vet=off -count=1 ./... > /tmp/seed-$$-suite.log 2>&1; SUITE=$?
echo "confirm: build=$BUILD suite_exit=$SUITE demo_without_change_exit=$WITHOUT demo_with_change_exit=$WITH"
CONFIRMED=false
if [ $BUILD = 0 ] && [ $SUITE = 0 ] && [ $WITHOUT = 0 ] && [ $WITH != 0 ]; then CONFIRMED=true; fi
cd "$ROOT"
# run the checks against the change
RESULTS=""
CAUGHT_ANY=false
if [ -n "$(git -C /repo status --porcelain)" ]; then echo "/repo not clean"; exit 2; fi
git -C /repo apply "$PATCH" || exit 2
for ID in $PROP $EXTRA; do
  START=$(date +%s)
  VERIF_ROOT_SAVE="$ROOT/evidence/$ID.json"
  cp "$VERIF_ROOT_SAVE" /tmp/seed-$$-ev.json 2>/dev/null
  ./run.sh "$ID" "$TIER" > /tmp/seed-$$-check-$ID.log 2>&1; RC=$?
  cp /tmp/seed-$$-ev.json "$VERIF_ROOT_SAVE" 2>/dev/null
  END=$(date +%s)
  SIG="$(grep -m1 'signature:' /tmp/seed-$$-check-$ID.log | sed 's/^ *signature: //' | cut -c1-200)"
  if [ $RC = 1 ] && grep -q "VIOLATION property=$ID" /tmp/seed-$$-check-$ID.log; then CAUGHT=true; CAUGHT_ANY=true; else CAUGHT=false; fi
  echo "check $ID $TIER: exit=$RC caught=$CAUGHT $((END-START))s  $SIG"
  RESULTS="$RESULTS{\"check\":\"$ID\",\"tier\":\"$TIER\",\"exit\":$RC,\"caught\":$CAUGHT,\"seconds\":$((END-START)),\"first_signature\":$(python3 -c 'import json,sys; print(json.dumps(sys.argv[1]))' "$SIG")},"
done
git -C /repo checkout -- . ; git -C /repo status --porcelain | head -3
rm -rf "$ROOT/replays"/*
DEST="$ROOT/seeded/$NAME"
mkdir -p "$DEST"
cp "$PATCH" "$DEST/patch.diff"
cp "$DEMO_FILE" "$DEST/"
[ -f "$OUT/notes.md" ] && cp "$OUT/notes.md" "$DEST/notes.md"
python3 - "$DEST" "$PROP" "$NAME" "$CONFIRMED" "$DEMO_REL" "[${RESULTS%,}]" "$BUILD" "$SUITE" "$WITHOUT" "$WITH" <<'EOF'
import json,sys,os
dest,prop,name,confirmed,demo_rel,results,build,suite,without,withc=sys.argv[1:11]
notes=open(os.path.join(dest,'notes.md')).read() if os.path.exists(os.path.join(dest,'notes.md')) else ''
meta={
 "name":name,"breaks_property":prop,
 "origin":"independent sub-agent given only the property text and a scratch worktree",
 "demo_file":os.path.basename(demo_rel),"demo_path_in_repo":demo_rel,
 "needs_to_manifest":"see notes.md (written by the author of the change)",
 "confirmed_by_me":confirmed=="true",
 "confirmation":{"scratch_worktree":"fresh `git worktree add --detach` of /repo HEAD, removed afterwards",
   "go_build_exit":int(build),"existing_suite_exit":int(suite),"demo_without_change_exit":int(without),"demo_with_change_exit":int(withc),
   "commands":["git apply patch.diff","go build ./...","go test -vet=off -count=1 ./...  (demo file removed)","go test -vet=off -count=1 -run TestSeedDemo <pkg>  (with and without the change)"]},
 "checks_run":json.loads(results),
 "how_run":"git -C /repo apply patch.diff; ./run.sh <id> <tier>; git -C /repo checkout -- .",
}
json.dump(meta,open(os.path.join(dest,'meta.json'),'w'),indent=1)
print("stored",dest,"confirmed=",confirmed)
EOF
rm -f /tmp/seed-$$-*
